import TruthModel.Model.RoundTrip
import TruthModel.Props.C12
import TruthModel.Props.C13
import TruthModel.Props.C14
import TruthModel.Props.C18
/-
Helper lemmas for C01 (`Props/C01.lean`): label names, instruction boundaries, what decoded
arguments look like, how raised arguments relate to decoded ones, and the three passes of
`Offsets.lowerTail` on the stream `raiseFlat` produces.
-/
namespace TruthModel.RoundTrip
open TruthModel TruthModel.Abi TruthModel.Offsets TruthModel.C18
set_option linter.unusedSimpArgs false
set_option linter.unusedVariables false

/-! ## label names -/

theorem toString_toList (n : Nat) : (toString n).toList = Nat.toDigits 10 n := by
  show (Nat.repr n).toList = _
  exact Nat.toList_repr

theorem digits_inj (a b : Nat) (h : Nat.toDigits 10 a = Nat.toDigits 10 b) : a = b := by
  have := congrArg (fun l => Nat.ofDigitChars 10 l 0) h
  simpa [Nat.ofDigitChars_ten_toDigits] using this

def pre : List Char := ['l','a','b','e','l','_']

theorem name_dest_toList (a : Nat) : ("label_" ++ toString a).toList = pre ++ Nat.toDigits 10 a := by
  rw [String.toList_append, toString_toList]; rfl

theorem name_before_toList (a : Nat) : ("label_" ++ toString a ++ "r").toList = pre ++ Nat.toDigits 10 a ++ ['r'] := by
  rw [String.toList_append, String.toList_append, toString_toList]; rfl

theorem r_not_digit : ¬ ('r' ∈ Nat.toDigits 10 a) := by
  intro h
  have := Nat.isDigit_of_mem_toDigits (by omega) (by omega) h
  revert this; decide

theorem s_not_digit : ¬ ('s' ∈ Nat.toDigits 10 a) := by
  intro h
  have := Nat.isDigit_of_mem_toDigits (by omega) (by omega) h
  revert this; decide

theorem dest_inj (a b : Nat) (h : "label_" ++ toString a = "label_" ++ toString b) : a = b := by
  have := congrArg String.toList h
  rw [name_dest_toList, name_dest_toList] at this
  exact digits_inj a b (List.append_cancel_left this)

theorem before_inj (a b : Nat) (h : "label_" ++ toString a ++ "r" = "label_" ++ toString b ++ "r") : a = b := by
  have := congrArg String.toList h
  rw [name_before_toList, name_before_toList] at this
  have h2 := List.append_cancel_right this
  exact digits_inj a b (List.append_cancel_left h2)

theorem dest_ne_before (a b : Nat) : "label_" ++ toString a ≠ "label_" ++ toString b ++ "r" := by
  intro h
  have := congrArg String.toList h
  rw [name_dest_toList, name_before_toList, List.append_assoc] at this
  have h2 := List.append_cancel_left this
  have : 'r' ∈ Nat.toDigits 10 a := by rw [h2]; simp
  exact r_not_digit this

theorem start_ne_dest (a : Nat) : "label_startr" ≠ "label_" ++ toString a := by
  intro h
  have := congrArg String.toList h
  rw [name_dest_toList] at this
  have h2 : ['s','t','a','r','t','r'] = Nat.toDigits 10 a := List.append_cancel_left (as := pre) this
  have : 's' ∈ Nat.toDigits 10 a := by rw [← h2]; simp
  exact s_not_digit this

theorem start_ne_before (a : Nat) : "label_startr" ≠ "label_" ++ toString a ++ "r" := by
  intro h
  have := congrArg String.toList h
  rw [name_before_toList, List.append_assoc] at this
  have h2 : ['s','t','a','r','t','r'] = Nat.toDigits 10 a ++ ['r'] := List.append_cancel_left (as := pre) this
  have : 's' ∈ Nat.toDigits 10 a ++ ['r'] := by rw [← h2]; simp
  simp at this
  exact s_not_digit this
/-! ## instruction boundaries -/

theorem offsetsFrom_length' (off : Nat) (ss : List Nat) : (offsetsFrom off ss).length = ss.length := by
  induction ss generalizing off with
  | nil => rfl
  | cons s ss ih => simp [offsetsFrom, ih]

theorem boundaries_length (hdr : Nat) (is : List RawInstr) : (boundaries hdr is).length = is.length + 1 := by
  simp [boundaries, offsetsFrom_length']

theorem offsetsFrom_ge (ss : List Nat) : ∀ (off : Nat) (x : Nat), x ∈ offsetsFrom off ss → off ≤ x := by
  induction ss with
  | nil => intro off x h; simp [offsetsFrom] at h
  | cons s ss ih =>
    intro off x h
    simp only [offsetsFrom, List.mem_cons] at h
    rcases h with h | h
    · omega
    · have := ih _ _ h; omega

/-- boundaries are strictly increasing when every instruction has a positive size -/
theorem offsetsFrom_pairwise (ss : List Nat) (hpos : ∀ s ∈ ss, 0 < s) : ∀ off, (offsetsFrom off (ss ++ [0])).Pairwise (· < ·) := by
  induction ss with
  | nil => intro off; simp [offsetsFrom]
  | cons s ss ih =>
    intro off
    simp only [List.cons_append, offsetsFrom, List.pairwise_cons]
    refine ⟨?_, ih (fun x hx => hpos x (List.mem_cons_of_mem _ hx)) _⟩
    intro x hx
    have := offsetsFrom_ge _ _ _ hx
    have := hpos s List.mem_cons_self
    omega

theorem boundaries_pairwise (hdr : Nat) (h : 0 < hdr) (is : List RawInstr) : (boundaries hdr is).Pairwise (· < ·) := by
  apply offsetsFrom_pairwise
  intro s hs
  simp only [List.mem_map] at hs
  obtain ⟨i, _, rfl⟩ := hs
  simp [instrSize]; omega

theorem boundaries_nodup (hdr : Nat) (h : 0 < hdr) (is : List RawInstr) : (boundaries hdr is).Nodup :=
  (boundaries_pairwise hdr h is).imp (fun h => Nat.ne_of_lt h)

/-! ## decoded arguments -/

/-- what every decoded value looks like: the type of its encoding, a register only where the
encoding allows one, jump arguments are 32-bit immediates -/
def argWF : Enc → Arg → Bool
  | .jumpOffset, .int v r => i32Range v && !r
  | .jumpTime, .int v r => i32Range v && !r
  | .padding _, .int _ r => !r
  | .int _ _ _ imm, .int _ r => !(r && imm)
  | .float imm, .float _ r => !(r && imm)
  | .str .., .str _ => true
  | _, _ => false

def argsWF : Abi → List Arg → Bool
  | [], [] => true
  | e :: es, a :: as => argWF e a && argsWF es as
  | _, _ => false

theorem toSigned4_range (x : Nat) (hx : x < 256 ^ 4) : i32Range (toSigned 4 x) = true := by
  simp [i32Range, toSigned] at *
  split <;> omega

theorem decodeOne_wf (e : Enc) (rest : Bytes) (r : Bool) (a0 : Option Int)
    (a : Arg) (w : List String) (rest1 : Bytes) (a01 : Option Int)
    (hr : e.alwaysImmediate = true → r = false)
    (h : decodeOne e rest r a0 = .ok (a, w, rest1, a01)) : argWF e a = true := by
  cases e with
  | int iw s z imm =>
    have hri : (r && imm) = false := by
      cases imm
      · simp
      · simp [hr (by simp [Enc.alwaysImmediate])]
    cases z
    · simp only [decodeOne] at h; split at h <;> simp at h; rw [← h.1]; simp [argWF, hri]
    · simp only [decodeOne] at h; split at h <;> simp at h; rw [← h.1]; simp [argWF, hri]
  | jumpOffset =>
    simp only [decodeOne] at h; split at h <;> simp at h; rw [← h.1]
    have hl : leNat (rest.take 4) < 256 ^ 4 := by
      have := leNat_lt (rest.take 4); have h4 : (rest.take 4).length ≤ 4 := by simp; omega
      calc leNat (rest.take 4) < 256 ^ (rest.take 4).length := this
        _ ≤ 256 ^ 4 := Nat.pow_le_pow_right (by omega) h4
    simp [argWF, toSigned4_range _ hl, hr rfl]
  | jumpTime =>
    simp only [decodeOne] at h; split at h <;> simp at h; rw [← h.1]
    have hl : leNat (rest.take 4) < 256 ^ 4 := by
      have := leNat_lt (rest.take 4); have h4 : (rest.take 4).length ≤ 4 := by simp; omega
      calc leNat (rest.take 4) < 256 ^ (rest.take 4).length := this
        _ ≤ 256 ^ 4 := Nat.pow_le_pow_right (by omega) h4
    simp [argWF, toSigned4_range _ hl, hr rfl]
  | padding wd => simp [decodeOne] at h
  | float imm =>
    have hri : (r && imm) = false := by
      cases imm
      · simp
      · simp [hr (by simp [Enc.alwaysImmediate])]
    simp only [decodeOne] at h; split at h <;> simp at h; rw [← h.1]; simp [argWF, hri]
  | str sz m f =>
    simp only [decodeOne] at h
    split at h <;> simp at h
    rw [← h.1]; rfl

theorem decLoop_wf (es : Abi) : ∀ (rest : Bytes) (mask : Nat) (a0 : Option Int) (o : DecOut),
    decLoop es rest mask a0 = .ok o → argsWF es o.args = true := by
  induction es with
  | nil => intro rest mask a0 o h; simp only [decLoop, Outcome.ok.injEq] at h; subst h; rfl
  | cons e es ih =>
    intro rest mask a0 o h
    by_cases hp : e.isPadding = true
    · simp only [decLoop, hp, if_true] at h
      split at h
      · cases h
      · cases h2 : decLoop es (rest.drop e.padWidth) mask a0 with
        | ok o2 =>
          rw [h2] at h; simp only [Outcome.ok.injEq] at h; subst h
          cases e <;> simp [Enc.isPadding] at hp
          simp [argsWF, argWF, ih _ _ _ o2 h2]
        | err c => rw [h2] at h; cases h
        | panic p => rw [h2] at h; cases h
    · have hp' : e.isPadding = false := by simpa using hp
      simp only [decLoop, hp', Bool.false_eq_true, if_false] at h
      cases h1 : decodeOne e rest (!e.alwaysImmediate && mask % 2 == 1) a0 with
      | ok r =>
        obtain ⟨a, w, rest1, a01⟩ := r
        rw [h1] at h; simp only at h
        cases h2 : decLoop es rest1 (mask / 2) a01 with
        | ok o2 =>
          rw [h2] at h; simp only [Outcome.ok.injEq] at h; subst h
          have hwf := decodeOne_wf e rest _ a0 a w rest1 a01 (by intro hi; simp [hi]) h1
          simp [argsWF, hwf, ih _ _ _ o2 h2]
        | err c => rw [h2] at h; cases h
        | panic p => rw [h2] at h; cases h
      | err c => rw [h1] at h; cases h
      | panic p => rw [h1] at h; cases h

/-- the `arg0` field is consumed by a leading `arg0` parameter -/
theorem decLoop_arg0_passthrough (es : Abi) (hna : ∀ e ∈ es, e.isArg0 = false) : ∀ (rest : Bytes) (mask : Nat) (a0 : Option Int) (o : DecOut),
    decLoop es rest mask a0 = .ok o → o.arg0 = a0 := by
  induction es with
  | nil => intro rest mask a0 o h; simp only [decLoop, Outcome.ok.injEq] at h; subst h; rfl
  | cons e es ih =>
    intro rest mask a0 o h
    have ih' := ih (fun x hx => hna x (List.mem_cons_of_mem _ hx))
    have he := hna e List.mem_cons_self
    by_cases hp : e.isPadding = true
    · simp only [decLoop, hp, if_true] at h
      split at h
      · cases h
      · cases h2 : decLoop es (rest.drop e.padWidth) mask a0 with
        | ok o2 => rw [h2] at h; simp only [Outcome.ok.injEq] at h; subst h; exact ih' _ _ _ o2 h2
        | err c => rw [h2] at h; cases h
        | panic p => rw [h2] at h; cases h
    · have hp' : e.isPadding = false := by simpa using hp
      simp only [decLoop, hp', Bool.false_eq_true, if_false] at h
      cases h1 : decodeOne e rest (!e.alwaysImmediate && mask % 2 == 1) a0 with
      | ok r =>
        obtain ⟨a, w, rest1, a01⟩ := r
        rw [h1] at h; simp only at h
        have ha : a01 = a0 := by
          cases e with
          | int iw s z imm =>
            cases z
            · simp only [decodeOne] at h1; split at h1 <;> simp at h1; exact h1.2.2.2.symm
            · simp [Enc.isArg0] at he
          | jumpOffset => simp only [decodeOne] at h1; split at h1 <;> simp at h1; exact h1.2.2.2.symm
          | jumpTime => simp only [decodeOne] at h1; split at h1 <;> simp at h1; exact h1.2.2.2.symm
          | padding wd => simp [decodeOne] at h1
          | float imm => simp only [decodeOne] at h1; split at h1 <;> simp at h1; exact h1.2.2.2.symm
          | str sz m f => simp only [decodeOne] at h1; split at h1 <;> simp at h1; exact h1.2.2.2.symm
        cases h2 : decLoop es rest1 (mask / 2) a01 with
        | ok o2 => rw [h2] at h; simp only [Outcome.ok.injEq] at h; subst h; rw [← ha]; exact ih' _ _ _ o2 h2
        | err c => rw [h2] at h; cases h
        | panic p => rw [h2] at h; cases h
      | err c => rw [h1] at h; cases h
      | panic p => rw [h1] at h; cases h
/-! ## `decodeInstr` and `canonInstr` -/

theorem decodeInstr_decodeArgs (abi : Abi) (i : RawInstr) (full : List Arg) (a0 : Option Int) (w : List String)
    (h : decodeInstr abi i = .ok ((full, a0), w)) : decodeArgs abi ⟨i.blob, i.mask, i.extra⟩ = .ok (full, w) := by
  simp only [decodeInstr] at h
  simp only [decodeArgs]
  cases hd : decLoop abi i.blob i.mask i.extra with
  | ok o => rw [hd] at h; simp only [Outcome.ok.injEq, Prod.mk.injEq] at h; obtain ⟨⟨h1, _⟩, h2⟩ := h; simp [← h1, ← h2, leftoverMsg, unusedMaskMsg]
  | err c => rw [hd] at h; cases h
  | panic p => rw [hd] at h; cases h

theorem decodeInstr_wf (abi : Abi) (i : RawInstr) (full : List Arg) (a0 : Option Int) (w : List String)
    (h : decodeInstr abi i = .ok ((full, a0), w)) : argsWF abi full = true := by
  simp only [decodeInstr] at h
  cases hd : decLoop abi i.blob i.mask i.extra with
  | ok o => rw [hd] at h; simp only [Outcome.ok.injEq, Prod.mk.injEq] at h; rw [← h.1.1]; exact decLoop_wf _ _ _ _ _ hd
  | err c => rw [hd] at h; cases h
  | panic p => rw [hd] at h; cases h

/-- with a leading `arg0` parameter the header field is consumed: no `@arg0` is shown -/
theorem decodeInstr_arg0 (abi : Abi) (i : RawInstr) (full : List Arg) (a0 : Option Int) (w : List String)
    (hv : validAbi abi = true) (hh : headIsArg0 abi = true)
    (h : decodeInstr abi i = .ok ((full, a0), w)) : a0 = none := by
  simp only [decodeInstr] at h
  cases hd : decLoop abi i.blob i.mask i.extra with
  | ok o =>
    rw [hd] at h; simp only [Outcome.ok.injEq, Prod.mk.injEq] at h; rw [← h.1.2]
    cases abi with
    | nil => simp [headIsArg0] at hh
    | cons e es =>
      simp only [headIsArg0] at hh
      have htail := validAbi_arg0_tail (e :: es) hv
      simp only [List.drop_one, List.tail_cons] at htail
      have hp : e.isPadding = false := by cases e <;> simp_all [Enc.isArg0, Enc.isPadding]
      simp only [decLoop, hp, Bool.false_eq_true, if_false] at hd
      cases e with
      | int iw s z imm =>
        have hz : z = true := by cases z <;> simp_all [Enc.isArg0]
        subst hz
        simp only [decodeOne] at hd
        cases hx : i.extra with
        | none => rw [hx] at hd; simp at hd
        | some v =>
          rw [hx] at hd; simp only at hd
          cases h2 : decLoop es i.blob (i.mask / 2) none with
          | ok o2 =>
            rw [h2] at hd; simp only [Outcome.ok.injEq] at hd; subst hd
            show o2.arg0 = none
            exact decLoop_arg0_passthrough es htail _ _ _ o2 h2
          | err c => rw [h2] at hd; cases hd
          | panic p => rw [h2] at hd; cases hd
      | jumpOffset => simp [Enc.isArg0] at hh
      | jumpTime => simp [Enc.isArg0] at hh
      | padding w => simp [Enc.isArg0] at hh
      | float imm => simp [Enc.isArg0] at hh
      | str sz m f => simp [Enc.isArg0] at hh
  | err c => rw [hd] at h; cases h
  | panic p => rw [hd] at h; cases h

/-- what `canonInstr` says about an instruction whose signature is known -/
theorem canonInstr_known {L : Lang} {a : Bool} {st st' : EncState} {i : RawInstr} {abi : Abi}
    (hs : effSig L a i.opcode = some abi) (h : canonInstr L a st i = some st') :
    wfInstr L i = true ∧ ∃ full a0 raw w, decodeInstr abi i = .ok ((full, a0), []) ∧ nonzeroPadding abi full = false ∧
      floatRegsOk L (dropPadding abi full) = true ∧ checkCall abi (dropPadding abi full) = .ok () ∧
      encodeArgs L.hasRegs st abi (dropPadding abi full) = .ok (raw, w, st') ∧ raw.blob = i.blob ∧ raw.mask = i.mask ∧
      arg0After (pseudoArg0 a0) raw.arg0 = i.extra := by
  unfold canonInstr at h
  by_cases hwf : wfInstr L i = true
  · simp only [hwf, Bool.not_true, Bool.false_eq_true, if_false, hs] at h
    refine ⟨hwf, ?_⟩
    cases hd : decodeInstr abi i with
    | ok r =>
      obtain ⟨⟨full, a0⟩, w⟩ := r
      rw [hd] at h
      cases w with
      | cons x xs => simp at h
      | nil =>
        simp only at h
        by_cases hnz : nonzeroPadding abi full = true
        · simp [hnz] at h
        · by_cases hfr : floatRegsOk L (dropPadding abi full) = true
          · simp only [hnz, hfr, Bool.not_true, Bool.false_eq_true, if_false] at h
            cases hcc : checkCall abi (dropPadding abi full) with
            | ok u =>
              rw [hcc] at h; simp only at h
              cases henc : encodeArgs L.hasRegs st abi (dropPadding abi full) with
              | ok r2 =>
                obtain ⟨raw, w2, st1⟩ := r2
                rw [henc] at h; simp only at h
                by_cases hall : raw.blob = i.blob ∧ raw.mask = i.mask ∧ arg0After (pseudoArg0 a0) raw.arg0 = i.extra
                · rw [if_pos hall] at h
                  simp only [Option.some.injEq] at h
                  subst h
                  exact ⟨full, a0, raw, w2, rfl, by simpa using hnz, hfr, hcc, henc, hall.1, hall.2.1, hall.2.2⟩
                · rw [if_neg hall] at h; cases h
              | err c => rw [henc] at h; simp at h
              | panic p => rw [henc] at h; simp at h
            | err c => rw [hcc] at h; simp at h
            | panic p => rw [hcc] at h; simp at h
          · simp [hnz, hfr] at h
    | err c => rw [hd] at h; simp at h
    | panic p => rw [hd] at h; simp at h
  · simp [hwf] at h

theorem canonInstr_unknown {L : Lang} {a : Bool} {st st' : EncState} {i : RawInstr}
    (hs : effSig L a i.opcode = none) (h : canonInstr L a st i = some st') :
    wfInstr L i = true ∧ st' = st ∧ i.blob.length % 4 = 0 := by
  unfold canonInstr at h
  by_cases hwf : wfInstr L i = true
  · simp only [hwf, Bool.not_true, Bool.false_eq_true, if_false, hs] at h
    by_cases hb : i.blob.length % 4 = 0
    · simp only [hb, if_true, Option.some.injEq] at h; exact ⟨hwf, h.symm, hb⟩
    · simp [hb] at h
  · simp [hwf] at h
/-! ## raised arguments -/

/-- how one raised argument `x` relates to the decoded value `a` it came from; `lab` = name and time
of the destination label of the instruction's jump, `jo` = the value of its `o` parameter -/
inductive RaisedAs (L : Lang) (lab : Option String × Option Int32) (jo : Option Int) : FArg → Arg → Prop
  | int (v : Int) : RaisedAs L lab jo (.int v) (.int v false)
  | float (b : UInt32) : RaisedAs L lab jo (.float b) (.float b false)
  | str (s : Bytes) : RaisedAs L lab jo (.str s) (.str s)
  | ireg (r : Int) : RaisedAs L lab jo (.reg r false) (.int r true)
  | freg (r : Int) (b : UInt32) : L.fr.ofReg r = b → RaisedAs L lab jo (.reg r true) (.float b true)
  | off (n : String) (v : Int) : lab.1 = some n → jo = some v → RaisedAs L lab jo (.offsetof n) (.int v false)
  | tof (n : String) (t : Int32) (v : Int) : lab = (some n, some t) → t = Int32.ofInt v → i32Range v = true →
      RaisedAs L lab jo (.timeof n) (.int v false)

theorem RaisedAs.mono {L : Lang} {lab : Option String × Option Int32} {jo jo' : Option Int} {x : FArg} {a : Arg}
    (hj : ∀ v, jo' = some v → jo = some v) (h : RaisedAs L lab jo' x a) : RaisedAs L lab jo x a := by
  cases h with
  | int v => exact .int v
  | float b => exact .float b
  | str s => exact .str s
  | ireg r => exact .ireg r
  | freg r b h => exact .freg r b h
  | off n v h1 h2 => exact .off n v h1 (hj v h2)
  | tof n t v h1 h2 h3 => exact .tof n t v h1 h2 h3

def noJumpOffset (es : Abi) : Bool := es.all fun e => e != .jumpOffset

theorem jumpOffsetArg_none (es : Abi) (h : noJumpOffset es = true) : ∀ as, jumpOffsetArg es as = none := by
  induction es with
  | nil => intro as; cases as <;> rfl
  | cons e es ih =>
    intro as
    simp only [noJumpOffset, List.all_cons, Bool.and_eq_true, bne_iff_ne, ne_eq] at h
    cases as with
    | nil => cases e <;> rfl
    | cons a as =>
      cases e with
      | jumpOffset => exact absurd rfl h.1
      | _ => exact ih h.2 as

/-- one value -/
theorem raiseArg_rel (L : Lang) (lab : Option String × Option Int32) (jo : Option Int) (e : Enc) (a : Arg)
    (hwf : argWF e a = true) (hp : e.isPadding = false)
    (hfr : ∀ b, a = .float b true → ∃ r, L.fr.toReg b = some r ∧ L.fr.ofReg r = b)
    (hjo : e = .jumpOffset → ∀ v r, a = .int v r → jo = some v ∧ lab.1.isSome = true) :
    ∃ x, raiseArg L lab e a = .ok (x, []) ∧ RaisedAs L lab jo x a := by
  cases a with
  | int v r =>
    cases r with
    | true =>
      cases e <;> simp [argWF] at hwf
      exact ⟨.reg v false, by simp [raiseArg, Arg.isReg, raiseReg, raiseLit, timeArg, offsetArg], .ireg v⟩
    | false =>
      cases e with
      | jumpOffset =>
        obtain ⟨h1, h2⟩ := hjo rfl v false rfl
        obtain ⟨n, t⟩ := lab
        cases n with
        | none => simp at h2
        | some n => exact ⟨.offsetof n, by simp [raiseArg, Arg.isReg, raiseReg, raiseLit, timeArg, offsetArg], .off n v rfl h1⟩
      | jumpTime =>
        simp only [argWF, Bool.and_eq_true, Bool.not_eq_true'] at hwf
        obtain ⟨n, t⟩ := lab
        cases n with
        | none => exact ⟨.int v, by simp [raiseArg, Arg.isReg, raiseReg, raiseLit, timeArg, offsetArg], .int v⟩
        | some n =>
          cases t with
          | none => exact ⟨.int v, by simp [raiseArg, Arg.isReg, raiseReg, raiseLit, timeArg, offsetArg], .int v⟩
          | some t =>
            by_cases ht : t = Int32.ofInt v
            · exact ⟨.timeof n, by simp [raiseArg, Arg.isReg, raiseLit, timeArg, ht], .tof n t v rfl ht hwf.1⟩
            · exact ⟨.int v, by simp [raiseArg, Arg.isReg, raiseLit, timeArg, ht], .int v⟩
      | padding w => simp [Enc.isPadding] at hp
      | int iw s z imm => exact ⟨.int v, by simp [raiseArg, Arg.isReg, raiseReg, raiseLit, timeArg, offsetArg], .int v⟩
      | float imm => simp [argWF] at hwf
      | str sz m f => simp [argWF] at hwf
  | float b r =>
    cases r with
    | true =>
      obtain ⟨rg, h1, h2⟩ := hfr b rfl
      exact ⟨.reg rg true, by simp [raiseArg, Arg.isReg, raiseReg, h1], .freg rg b h2⟩
    | false =>
      cases e <;> simp [argWF] at hwf
      exact ⟨.float b, by simp [raiseArg, Arg.isReg, raiseReg, raiseLit, timeArg, offsetArg], .float b⟩
  | str s =>
    cases e <;> simp [argWF] at hwf
    exact ⟨.str s, by simp [raiseArg, Arg.isReg, raiseReg, raiseLit, timeArg, offsetArg], .str s⟩

def floatRegOk (L : Lang) (a : Arg) : Bool :=
  match a with
  | .float b true => (match L.fr.toReg b with | some r => L.fr.ofReg r == b | none => false)
  | _ => true

theorem floatRegsOk_cons (L : Lang) (a : Arg) (as : List Arg) :
    floatRegsOk L (a :: as) = (floatRegOk L a && floatRegsOk L as) := by
  simp only [floatRegsOk, List.all_cons, floatRegOk]
  cases a with
  | float b r => cases r <;> rfl
  | _ => rfl

theorem floatRegOk_spec (L : Lang) (a : Arg) (h : floatRegOk L a = true) :
    ∀ b, a = .float b true → ∃ r, L.fr.toReg b = some r ∧ L.fr.ofReg r = b := by
  intro b hb
  subst hb
  simp only [floatRegOk] at h
  cases hr : L.fr.toReg b with
  | none => rw [hr] at h; cases h
  | some r => rw [hr] at h; exact ⟨r, rfl, by simpa using h⟩

def countO (es : Abi) : Nat := (es.filter (· == .jumpOffset)).length

theorem countO_cons (e : Enc) (es : Abi) : countO (e :: es) = (if e = .jumpOffset then 1 else 0) + countO es := by
  simp only [countO, List.filter_cons]
  by_cases h : e = .jumpOffset
  · subst h; simp; omega
  · have : (e == Enc.jumpOffset) = false := by simpa using h
    simp [this, h]

theorem All2.imp {α β : Type} {R S : α → β → Prop} (h : ∀ a b, R a b → S a b) : ∀ {as : List α} {bs : List β}, All2 R as bs → All2 S as bs
  | _, _, .nil => .nil
  | _, _, .cons hh ht => .cons (h _ _ hh) (All2.imp h ht)

/-- all values of one instruction: no warning, and the raised list relates to the decoded one -/
theorem raiseArgs_rel (L : Lang) (lab : Option String × Option Int32) : ∀ (es : Abi) (as : List Arg) (jo : Option Int),
    argsWF es as = true → countO es ≤ 1 → floatRegsOk L (dropPadding es as) = true →
    (∀ v, jumpOffsetArg es as = some v → jo = some v ∧ lab.1.isSome = true) →
    ∃ xs, raiseArgs L lab es as = .ok (xs, []) ∧ All2 (RaisedAs L lab jo) xs (dropPadding es as) := by
  intro es
  induction es with
  | nil =>
    intro as jo hwf _ _ _
    cases as with
    | nil => exact ⟨[], rfl, .nil⟩
    | cons a as => simp [argsWF] at hwf
  | cons e es ih =>
    intro as jo hwf hc hfr hjo
    cases as with
    | nil => simp [argsWF] at hwf
    | cons a as =>
      simp only [argsWF, Bool.and_eq_true] at hwf
      by_cases hp : e.isPadding = true
      · have hne : e ≠ .jumpOffset := by intro h; subst h; simp [Enc.isPadding] at hp
        have hc' : countO es ≤ 1 := by rw [countO_cons] at hc; omega
        have hj' : ∀ v, jumpOffsetArg es as = some v → jo = some v ∧ lab.1.isSome = true := by
          intro v hv; apply hjo v
          cases e <;> first | exact hv | exact absurd rfl hne
        simp only [dropPadding, hp, if_true] at hfr ⊢
        obtain ⟨xs, h1, h2⟩ := ih as jo hwf.2 hc' hfr hj'
        exact ⟨xs, by simp [raiseArgs, hp, h1], h2⟩
      · have hp' : e.isPadding = false := by simpa using hp
        simp only [dropPadding, hp', Bool.false_eq_true, if_false, floatRegsOk_cons, Bool.and_eq_true] at hfr ⊢
        by_cases hO : e = .jumpOffset
        · subst hO
          -- the only `o` parameter: the tail has none
          have hc0 : countO es = 0 := by rw [countO_cons] at hc; simp at hc; omega
          have hno : noJumpOffset es = true := by
            simp only [noJumpOffset, List.all_eq_true, bne_iff_ne, ne_eq]
            intro x hx hxe
            subst hxe
            have : Enc.jumpOffset ∈ es.filter (· == .jumpOffset) := List.mem_filter.mpr ⟨hx, by simp⟩
            rw [List.length_eq_zero_iff.mp hc0] at this
            cases this
          have htail := jumpOffsetArg_none es hno
          cases a with
          | int v r =>
            have hj0 := hjo v (by simp [jumpOffsetArg])
            obtain ⟨x, hx1, hx2⟩ := raiseArg_rel L lab jo .jumpOffset (.int v r) hwf.1 hp' (floatRegOk_spec L _ hfr.1)
              (by intro _ v' r' he; cases he; exact hj0)
            have hc' : countO es ≤ 1 := by omega
            obtain ⟨xs, h1, h2⟩ := ih as none hwf.2 hc' hfr.2 (by intro v' hv'; rw [htail] at hv'; cases hv')
            exact ⟨x :: xs, by simp [raiseArgs, hp', hx1, h1], .cons hx2 (All2.imp (fun _ _ hh => RaisedAs.mono (by intro v hv; cases hv) hh) h2)⟩
          | float b r => simp [argWF] at hwf
          | str s => simp [argWF] at hwf
        · have hc' : countO es ≤ 1 := by rw [countO_cons] at hc; omega
          have hj' : ∀ v, jumpOffsetArg es as = some v → jo = some v ∧ lab.1.isSome = true := by
            intro v hv; apply hjo v
            cases e <;> first | exact hv | exact absurd rfl hO
          obtain ⟨x, hx1, hx2⟩ := raiseArg_rel L lab jo e a hwf.1 hp' (floatRegOk_spec L _ hfr.1) (by intro he; exact absurd he hO)
          obtain ⟨xs, h1, h2⟩ := ih as jo hwf.2 hc' hfr.2 hj'
          exact ⟨x :: xs, by simp [raiseArgs, hp', hx1, h1], .cons hx2 h2⟩
theorem int32_roundtrip (v : Int) (h : i32Range v = true) : (Int32.ofInt v).toInt = v := by
  simp only [i32Range, Bool.and_eq_true, decide_eq_true_eq] at h
  rw [Int32.toInt_ofInt, Int.bmod_def]
  simp only [Int32.size]
  omega

/-! ## consequences of `RaisedAs` -/

theorem RaisedAs.shape {L : Lang} {lab : Option String × Option Int32} {jo : Option Int} {x : FArg} {a : Arg}
    (h : RaisedAs L lab jo x a) : (argShape L x).ty = a.ty ∧ (argShape L x).isReg = a.isReg := by
  cases h <;> simp [argShape, toLArg, dummyArg, Arg.ty, Arg.isReg]

theorem RaisedAs.real {L : Lang} {lab : Option String × Option Int32} {jo : Option Int} {x : FArg} {a : Arg}
    (h : RaisedAs L lab jo x a) : Real (toLArg L x) (.raw a) := by
  cases h with
  | int v => exact .same _
  | float b => exact .same _
  | str s => exact .same _
  | ireg r => exact .same _
  | freg r b h => simp only [toLArg, h]; exact .same _
  | off n v _ _ => exact .label n v
  | tof n t v _ _ _ => exact .timeOf n v

theorem All2.length_eq {α β : Type} {R : α → β → Prop} : ∀ {as : List α} {bs : List β}, All2 R as bs → as.length = bs.length
  | _, _, .nil => rfl
  | _, _, .cons _ ht => by simp [All2.length_eq ht]

theorem All2.map {α β γ δ : Type} {R : α → β → Prop} {S : γ → δ → Prop} (f : α → γ) (g : β → δ)
    (h : ∀ a b, R a b → S (f a) (g b)) : ∀ {as : List α} {bs : List β}, All2 R as bs → All2 S (as.map f) (bs.map g)
  | _, _, .nil => .nil
  | _, _, .cons hh ht => .cons (h _ _ hh) (All2.map f g h ht)

/-- the call checks only look at type and register-ness -/
theorem checkTypes_shape : ∀ (ps : Abi) (ss as : List Arg), All2 (fun s a => s.ty = a.ty ∧ s.isReg = a.isReg) ss as →
    checkTypes ps ss = checkTypes ps as ∧ checkConst ps ss = checkConst ps as := by
  intro ps
  induction ps with
  | nil => intro ss as h; cases h <;> simp [checkTypes, checkConst]
  | cons p ps ih =>
    intro ss as h
    cases h with
    | nil => simp [checkTypes, checkConst]
    | cons hh ht =>
      obtain ⟨i1, i2⟩ := ih _ _ ht
      simp only [checkTypes, checkConst, hh.1, hh.2, i1, i2, and_self]

theorem expectRawAll_raw (as : List Arg) : expectRawAll (as.map LArg.raw) = .ok as := by
  induction as with
  | nil => rfl
  | cons a as ih => simp [expectRawAll, expectRaw, ih]

/-- `encode_labels` on raised arguments gives the decoded values back, when the label table knows
the destination label with the right offset and time -/
theorem encodeLabelArgs_raised (L : Lang) (mode : LabelMode) (tbl : List LabelInfo) (cur : Nat)
    (lab : Option String × Option Int32) (jo : Option Int)
    (hoff : ∀ n v, lab.1 = some n → jo = some v → ∃ info, lookupLabel tbl n = some info ∧ encodeLabel mode cur info.offset = .ok v)
    (htime : ∀ n t, lab = (some n, some t) → ∃ info, lookupLabel tbl n = some info ∧ info.time = t.toInt) :
    ∀ {xs : List FArg} {as : List Arg}, All2 (RaisedAs L lab jo) xs as →
      encodeLabelArgs mode tbl cur (xs.map (toLArg L)) = .ok (as.map .raw)
  | _, _, .nil => rfl
  | _, _, .cons hh ht => by
    have ih := encodeLabelArgs_raised L mode tbl cur lab jo hoff htime ht
    simp only [List.map_cons, encodeLabelArgs, ih]
    cases hh with
    | int v => simp [toLArg, encodeLabelArg]
    | float b => simp [toLArg, encodeLabelArg]
    | str s => simp [toLArg, encodeLabelArg]
    | ireg r => simp [toLArg, encodeLabelArg]
    | freg r b h => simp [toLArg, encodeLabelArg, h]
    | off n v h1 h2 =>
      obtain ⟨info, hi1, hi2⟩ := hoff n v h1 h2
      simp [toLArg, encodeLabelArg, hi1, hi2]
    | tof n t v h1 h2 h3 =>
      obtain ⟨info, hi1, hi2⟩ := htime n t h1
      simp [toLArg, encodeLabelArg, hi1, hi2, h2, int32_roundtrip v h3]
/-! ## jump offsets -/

theorem getD_eq_getElem (l : List Nat) (k : Nat) (h : k < l.length) : l.getD k 0 = l[k] := by
  simp [List.getD_eq_getElem?_getD, h]

/-- a decoded offset that is a boundary encodes back to the stored value -/
theorem encodeLabel_decode (mode : LabelMode) (cur : Nat) (v : Int) (offs : List Nat) (hr : i32Range v = true)
    (hk : destIdx offs (decodeLabel mode cur v) < offs.length) :
    encodeLabel mode cur (offs.getD (destIdx offs (decodeLabel mode cur v)) 0) = .ok v := by
  unfold destIdx at hk ⊢
  by_cases hd : decodeLabel mode cur v < 0
  · rw [if_pos hd] at hk; omega
  · rw [if_neg hd] at hk ⊢
    rw [getD_eq_getElem _ _ hk, List.getElem_idxOf hk]
    have hj := jump_roundtrip v hr
    simp only [i32Range, Bool.and_eq_true, decide_eq_true_eq] at hr
    cases mode with
    | absolute =>
      simp only [decodeLabel, encodeLabel, Int.toNat_natCast, Outcome.ok.injEq]
      have : wrapTo 4 v % 4294967296 = wrapTo 4 v % 256 ^ 4 := by simp
      rw [this, hj]
    | relative =>
      simp only [decodeLabel, encodeLabel, Outcome.ok.injEq] at hd ⊢
      have : (((cur : Int) + v).toNat : Int) - (cur : Int) = v := by omega
      rw [this]
      have h2 : wrapTo 4 v % 256 ^ 4 = wrapTo 4 v := by
        apply Nat.mod_eq_of_lt
        simp only [wrapTo]; omega
      rw [← h2, hj]
    | index20 =>
      simp only [decodeLabel, encodeLabel, Int.toNat_natCast, Outcome.ok.injEq]
      have : wrapTo 4 v * 20 / 20 % 4294967296 = wrapTo 4 v % 256 ^ 4 := by
        rw [Nat.mul_div_cancel _ (by omega)]
      rw [this, hj]

/-! ## names of the labels of a script -/

def nameIdxOk (offs : List Nat) : Time.LabelName → Prop
  | .dest k => k < offs.length
  | .before k => k < offs.length
  | .start => True

theorem labelName_inj (offs : List Nat) (hnd : offs.Nodup) (n1 n2 : Time.LabelName)
    (h1 : nameIdxOk offs n1) (h2 : nameIdxOk offs n2) (h : labelName offs n1 = labelName offs n2) : n1 = n2 := by
  cases n1 with
  | dest k1 =>
    cases n2 with
    | dest k2 =>
      simp only [labelName] at h
      have := dest_inj _ _ h
      simp only [nameIdxOk] at h1 h2
      rw [getD_eq_getElem _ _ h1, getD_eq_getElem _ _ h2] at this
      rw [(List.getElem_inj hnd).mp this]
    | before k2 => exact absurd h (dest_ne_before _ _)
    | start => exact absurd h.symm (start_ne_dest _)
  | before k1 =>
    cases n2 with
    | dest k2 => exact absurd h.symm (dest_ne_before _ _)
    | before k2 =>
      simp only [labelName] at h
      have := before_inj _ _ h
      simp only [nameIdxOk] at h1 h2
      rw [getD_eq_getElem _ _ h1, getD_eq_getElem _ _ h2] at this
      rw [(List.getElem_inj hnd).mp this]
    | start => exact absurd h.symm (start_ne_before _)
  | start =>
    cases n2 with
    | dest k2 => exact absurd h (start_ne_dest _)
    | before k2 => exact absurd h (start_ne_before _)
    | start => rfl

theorem labelFor_nameIdxOk (offs : List Nat) (ris : List Time.RInstr) (k : Nat) (l : Time.Label) (hk : k < offs.length)
    (h : Time.labelFor ris k = some l) : nameIdxOk offs l.name := by
  rcases C13.labelFor_name ris k l h with ⟨_, hn | hn⟩ | ⟨hpos, hn | hn⟩ <;> rw [hn] <;> simp only [nameIdxOk] <;> omega

/-- different boundaries of a script never get the same label name -/
theorem labelNames_distinct (offs : List Nat) (hnd : offs.Nodup) (ris : List Time.RInstr) (k1 k2 : Nat) (l1 l2 : Time.Label)
    (hk1 : k1 < offs.length) (hk2 : k2 < offs.length) (hne : k1 ≠ k2)
    (h1 : Time.labelFor ris k1 = some l1) (h2 : Time.labelFor ris k2 = some l2) :
    labelName offs l1.name ≠ labelName offs l2.name := by
  intro h
  have := labelName_inj offs hnd _ _ (labelFor_nameIdxOk offs ris k1 l1 hk1 h1) (labelFor_nameIdxOk offs ris k2 l2 hk2 h2) h
  exact hne (C13.label_names ris k1 k2 l1 l2 h1 h2 this)

/-! ## the label table of the recompiled script -/

def labInfos (offs : List Nat) (ris : List Time.RInstr) (k : Nat) : List LabelInfo :=
  match Time.labelFor ris k with
  | some l => [⟨labelName offs l.name, offs.getD k 0, l.time.toInt⟩]
  | none => []

/-- labels of the boundaries `k, k+1, .., k+m-1` in order -/
def tblFrom (offs : List Nat) (ris : List Time.RInstr) : Nat → Nat → List LabelInfo
  | _, 0 => []
  | k, m + 1 => labInfos offs ris k ++ tblFrom offs ris (k + 1) m

theorem lookup_tblFrom (offs : List Nat) (hnd : offs.Nodup) (ris : List Time.RInstr) : ∀ (m k kd : Nat) (l : Time.Label),
    k ≤ kd → kd < k + m → k + m ≤ offs.length → Time.labelFor ris kd = some l →
    lookupLabel (tblFrom offs ris k m) (labelName offs l.name) = some ⟨labelName offs l.name, offs.getD kd 0, l.time.toInt⟩ := by
  intro m
  induction m with
  | zero => intro k kd l h1 h2; omega
  | succ m ih =>
    intro k kd l h1 h2 h3 hl
    simp only [tblFrom, lookupLabel]
    by_cases hk : k = kd
    · subst hk
      simp [labInfos, hl]
    · have ih' := ih (k + 1) kd l (by omega) (by omega) (by omega) hl
      simp only [lookupLabel] at ih'
      cases hk1 : Time.labelFor ris k with
      | none => simp [labInfos, hk1, ih']
      | some l1 =>
        have hne := labelNames_distinct offs hnd ris k kd l1 l (by omega) (by omega) hk hk1 hl
        simp [labInfos, hk1, hne, ih']
/-! ## one instruction -/

/-- `EarlyRaiseInstr` of a canonical instruction, as a function -/
def earlyOf (L : Lang) (a : Bool) (off : Nat) (i : RawInstr) : Early :=
  match effSig L a i.opcode with
  | none => ⟨i, off, none, i.extra⟩
  | some abi =>
    match decodeInstr abi i with
    | .ok ((args, a0), _) => ⟨i, off, some (abi, args), a0⟩
    | _ => ⟨i, off, none, i.extra⟩

theorem jumpOffsetArg_range : ∀ (es : Abi) (as : List Arg) (v : Int), argsWF es as = true → jumpOffsetArg es as = some v → i32Range v = true := by
  intro es
  induction es with
  | nil => intro as v _ h; cases as <;> simp [jumpOffsetArg] at h
  | cons e es ih =>
    intro as v hwf h
    cases as with
    | nil => cases e <;> simp [jumpOffsetArg] at h
    | cons a as =>
      simp only [argsWF, Bool.and_eq_true] at hwf
      cases e with
      | jumpOffset =>
        cases a with
        | int x r => simp only [jumpOffsetArg, Option.some.injEq] at h; subst h; simp only [argWF, Bool.and_eq_true] at hwf; exact hwf.1.1
        | float b r => simp [argWF] at hwf
        | str s => simp [argWF] at hwf
      | _ => exact ih as v hwf.2 h

/-- difficulty masks: the label printed for a mask parses back to it -/
theorem diff_roundtrip (L : Lang) (hinv : C14.Inv L.defs) (dn : Nat) (h : dn < 256) :
    ∃ d, diffLabel L dn = .ok d ∧ (∀ c : FCall, diffMask L { c with diff := d } = .ok dn) ∧ (dn = defaultDifficulty → d = none) := by
  by_cases hd : dn = defaultDifficulty
  · exact ⟨none, by simp [diffLabel, hd], by intro c; simp [diffMask, hd], fun _ => rfl⟩
  · obtain ⟨s, hs1, hs2⟩ := C14.label_parse L.defs hinv (BitVec.ofNat 8 dn)
    refine ⟨some s, by simp [diffLabel, hd, hs1], ?_, fun h => absurd h hd⟩
    intro c
    simp only [diffMask, hs2, BitVec.toNat_ofNat, Outcome.ok.injEq]
    omega

theorem trunc16 (v : Int) (h : fitsInt .w2 true v = true) : toSigned 2 (wrapTo 2 v) = v := arg0_roundtrip v h

/-- everything the round trip needs to know about one canonical instruction with a known signature -/
theorem instr_known (L : Lang) (a : Bool) (offs : List Nat) (ris : List Time.RInstr) (tbl : List LabelInfo)
    (st st' : EncState) (i : RawInstr) (off : Nat) (abi : Abi)
    (hs : effSig L a i.opcode = some abi) (hv : validAbi abi = true) (hinv : C14.Inv L.defs)
    (hc : canonInstr L a st i = some st')
    (hj : ∀ kd tm, (earlyOf L a off i).jump L.mode offs = some (kd, tm) → kd < offs.length ∧ ∃ l, Time.labelFor ris kd = some l ∧
      lookupLabel tbl (labelName offs l.name) = some ⟨labelName offs l.name, offs.getD kd 0, l.time.toInt⟩) :
    ∃ (c : FCall) (d : Option (List Char)) (real : LInstr) (raw : RawInstr),
      raiseCall L offs ris (earlyOf L a off i) = .ok (c, []) ∧ diffLabel L i.difficulty = .ok d ∧
      (L.diffAllowed = true → diffCheck L { c with diff := d } = .ok ()) ∧
      typeCheck L { c with diff := d } = .ok () ∧ constCheck L { c with diff := d } = .ok () ∧
      (L.diffAllowed = false → forbidDiff { c with diff := d } = .ok ()) ∧ blobCheck { c with diff := d } = .ok () ∧
      InstrReal (mkInstr L (Int32.ofInt i.time) { c with diff := d }) real ∧
      encodeLabelsStmt L.mode tbl off (.instr (mkInstr L (Int32.ofInt i.time) { c with diff := d })) = .ok (.instr real) ∧
      encodeInstr L.hasRegs st real = .ok (raw, st') ∧ patch1 (mkOvr { c with diff := d }) raw = i := by
  obtain ⟨hwf, full, a0, raw0, w0, hdec, hnz, hfr, hcc, henc, hblob, hmask, hextra⟩ := canonInstr_known hs hc
  have hsig : L.sig i.opcode = some abi := by
    simp only [effSig] at hs; split at hs
    · exact hs
    · cases hs
  simp only [wfInstr, Bool.and_eq_true, decide_eq_true_eq, Bool.or_eq_true] at hwf
  obtain ⟨⟨⟨⟨htime, hdiff⟩, hmask16⟩, hext⟩, hdallow⟩ := hwf
  have hargs := decodeInstr_wf abi i full a0 [] hdec
  have he : earlyOf L a off i = ⟨i, off, some (abi, full), a0⟩ := by simp [earlyOf, hs, hdec]
  -- the destination label of the instruction's jump
  let lab := destLabel L.mode offs ris (earlyOf L a off i)
  have hcount : countO abi ≤ 1 := by
    simp only [validAbi, Bool.and_eq_true, decide_eq_true_eq] at hv
    exact hv.1.1.1.1.1.1
  have hjump : ∀ v, jumpOffsetArg abi full = some v → jumpOffsetArg abi full = some v ∧ lab.1.isSome = true := by
    intro v hv'
    refine ⟨hv', ?_⟩
    have hjmp : (earlyOf L a off i).jump L.mode offs = some (destIdx offs (decodeLabel L.mode off v), (jumpTimeArg abi full).map Int32.ofInt) := by
      simp [he, Early.jump, hv']
    obtain ⟨_, l, hl, _⟩ := hj _ _ hjmp
    show (destLabel L.mode offs ris (earlyOf L a off i)).1.isSome = true
    simp [destLabel, hjmp, hl]
  obtain ⟨xs, hxs, hrel⟩ := raiseArgs_rel L lab abi full (jumpOffsetArg abi full) hargs hcount hfr hjump
  obtain ⟨d, hd1, hd2, hd3⟩ := diff_roundtrip L hinv i.difficulty hdiff
  let c : FCall := { opcode := i.opcode, arg0 := pseudoArg0 a0, args := xs }
  have hraise : raiseCall L offs ris (earlyOf L a off i) = .ok (c, []) := by
    have : destLabel L.mode offs ris { raw := i, offset := off, dec := some (abi, full), arg0 := a0 } = lab := by rw [← he]
    simp [raiseCall, he, this, hxs, hnz, c]
  -- the call checks
  have hshape : All2 (fun s x => s.ty = x.ty ∧ s.isReg = x.isReg) (xs.map (argShape L)) (dropPadding abi full) := by
    have := All2.map (argShape L) id (S := fun s x => s.ty = x.ty ∧ s.isReg = x.isReg) (fun _ _ h => RaisedAs.shape h) hrel
    simpa using this
  have hlen : xs.length = (abi.filter Enc.contributes).length := by
    have h1 := All2.length_eq hrel
    simp only [checkCall] at hcc
    split at hcc
    · cases hcc
    · rename_i hne; rw [h1]; simpa using hne
  have hcc2 : checkTypes (abi.filter Enc.contributes) (dropPadding abi full) = .ok () ∧ checkConst (abi.filter Enc.contributes) (dropPadding abi full) = .ok () := by
    simp only [checkCall] at hcc
    split at hcc
    · cases hcc
    · cases ht : checkTypes (abi.filter Enc.contributes) (dropPadding abi full) with
      | ok u => rw [ht] at hcc; exact ⟨rfl, hcc⟩
      | err e => rw [ht] at hcc; cases hcc
      | panic p => rw [ht] at hcc; cases hcc
  obtain ⟨ht1, ht2⟩ := checkTypes_shape (abi.filter Enc.contributes) _ _ hshape
  -- the lowering-level instruction
  have hnoarg0 : (c.arg0.isSome && headIsArg0 abi) = false := by
    by_cases hh : headIsArg0 abi = true
    · have := decodeInstr_arg0 abi i full a0 [] hv hh hdec
      simp [c, this, pseudoArg0]
    · simp [hh]
  have hli : mkInstr L (Int32.ofInt i.time) { c with diff := d } = ⟨i.time, i.opcode, i.difficulty, .known abi (xs.map (toLArg L))⟩ := by
    have h2 := hd2 { opcode := i.opcode, arg0 := pseudoArg0 a0, args := xs }
    simp only at h2
    have := hnoarg0; simp only [c] at this
    simp only [mkInstr, c, hsig, Option.getD_some, int32_roundtrip i.time htime, h2, this]
    simp
  refine ⟨c, d, ⟨i.time, i.opcode, i.difficulty, .known abi ((dropPadding abi full).map .raw)⟩,
    ⟨i.time, i.opcode, raw0.mask, raw0.blob, i.difficulty, raw0.arg0⟩, hraise, hd1, ?_, ?_, ?_, ?_, ?_, ?_, ?_, ?_, ?_⟩
  · intro _; simp [diffCheck, hd2]
  · simp [typeCheck, c, hsig, hlen, ht1, hcc2.1]
  · simp [constCheck, c, hsig, ht2, hcc2.2]
  · intro hda
    have : i.difficulty = defaultDifficulty := by rcases hdallow with h | h; exact h; rw [hda] at h; cases h
    simp [forbidDiff, hd3 this]
  · simp [blobCheck, c]
  · rw [hli]
    exact .known _ _ _ _ _ _ (All2.map (toLArg L) LArg.raw (fun _ _ h => RaisedAs.real h) hrel)
  · rw [hli]
    have hoff : ∀ n v, lab.1 = some n → jumpOffsetArg abi full = some v →
        ∃ info, lookupLabel tbl n = some info ∧ encodeLabel L.mode off info.offset = .ok v := by
      intro n v hn hv'
      have hjmp : (earlyOf L a off i).jump L.mode offs = some (destIdx offs (decodeLabel L.mode off v), (jumpTimeArg abi full).map Int32.ofInt) := by
        simp [he, Early.jump, hv']
      obtain ⟨hk, l, hl, hlook⟩ := hj _ _ hjmp
      have hn' : lab.1 = some (labelName offs l.name) := by
        show (destLabel L.mode offs ris (earlyOf L a off i)).1 = _
        simp [destLabel, hjmp, hl]
      rw [hn] at hn'; cases hn'
      exact ⟨_, hlook, encodeLabel_decode L.mode off v offs (jumpOffsetArg_range abi full v hargs hv') hk⟩
    have htm : ∀ n t, lab = (some n, some t) → ∃ info, lookupLabel tbl n = some info ∧ info.time = t.toInt := by
      intro n t hnt
      cases hjmp : (earlyOf L a off i).jump L.mode offs with
      | none =>
        have : lab = (none, none) := by show destLabel L.mode offs ris (earlyOf L a off i) = _; simp [destLabel, hjmp]
        rw [this] at hnt; cases hnt
      | some p =>
        obtain ⟨kd, tm⟩ := p
        obtain ⟨hk, l, hl, hlook⟩ := hj _ _ hjmp
        have : lab = (some (labelName offs l.name), some l.time) := by
          show destLabel L.mode offs ris (earlyOf L a off i) = _; simp [destLabel, hjmp, hl]
        rw [this] at hnt; cases hnt
        exact ⟨_, hlook, rfl⟩
    simp [encodeLabelsStmt, encodeLabelArgs_raised L L.mode tbl off lab _ hoff htm hrel]
  · simp [encodeInstr, expectRawAll_raw, henc]
  · simp only [patch1, mkOvr, c, Option.map_none, Option.getD_none, hblob, hmask]
    have : arg0After ((pseudoArg0 a0).map fun v => toSigned 2 (wrapTo 2 v)) raw0.arg0 = i.extra := by
      cases hp : pseudoArg0 a0 with
      | none => rw [hp] at hextra; simpa [arg0After] using hextra
      | some v =>
        rw [hp] at hextra
        simp only [arg0After] at hextra
        have hfit : fitsInt .w2 true v = true := by rw [← hextra] at hext; exact hext
        rw [← hextra]
        simp [arg0After, trunc16 v hfit]
    rw [this]

/-- the same for the blob fallback (`--no-arguments`, unknown signature) -/
theorem instr_unknown (L : Lang) (a : Bool) (offs : List Nat) (ris : List Time.RInstr) (tbl : List LabelInfo)
    (st st' : EncState) (i : RawInstr) (off : Nat)
    (hs : effSig L a i.opcode = none) (hinv : C14.Inv L.defs)
    (hc : canonInstr L a st i = some st') :
    ∃ (c : FCall) (d : Option (List Char)) (real : LInstr) (raw : RawInstr),
      raiseCall L offs ris (earlyOf L a off i) = .ok (c, []) ∧ diffLabel L i.difficulty = .ok d ∧
      (L.diffAllowed = true → diffCheck L { c with diff := d } = .ok ()) ∧
      typeCheck L { c with diff := d } = .ok () ∧ constCheck L { c with diff := d } = .ok () ∧
      (L.diffAllowed = false → forbidDiff { c with diff := d } = .ok ()) ∧ blobCheck { c with diff := d } = .ok () ∧
      InstrReal (mkInstr L (Int32.ofInt i.time) { c with diff := d }) real ∧
      encodeLabelsStmt L.mode tbl off (.instr (mkInstr L (Int32.ofInt i.time) { c with diff := d })) = .ok (.instr real) ∧
      encodeInstr L.hasRegs st real = .ok (raw, st') ∧ patch1 (mkOvr { c with diff := d }) raw = i := by
  obtain ⟨hwf, hst, hb⟩ := canonInstr_unknown hs hc
  subst hst
  simp only [wfInstr, Bool.and_eq_true, decide_eq_true_eq, Bool.or_eq_true] at hwf
  obtain ⟨⟨⟨⟨htime, hdiff⟩, hmask16⟩, hext⟩, hdallow⟩ := hwf
  have he : earlyOf L a off i = ⟨i, off, none, i.extra⟩ := by simp [earlyOf, hs]
  obtain ⟨d, hd1, hd2, hd3⟩ := diff_roundtrip L hinv i.difficulty hdiff
  let c : FCall := { opcode := i.opcode, mask := if i.mask != 0 then some i.mask else none, arg0 := i.extra, blob := some i.blob }
  have h2 := hd2 c
  simp only [c] at h2
  have hli : mkInstr L (Int32.ofInt i.time) { c with diff := d } = ⟨i.time, i.opcode, i.difficulty, .unknown i.blob⟩ := by
    simp only [mkInstr, c, int32_roundtrip i.time htime, h2]
  refine ⟨c, d, ⟨i.time, i.opcode, i.difficulty, .unknown i.blob⟩, ⟨i.time, i.opcode, 0, i.blob, i.difficulty, none⟩,
    by simp [raiseCall, he, c], hd1, ?_, ?_, ?_, ?_, ?_, ?_, ?_, ?_, ?_⟩
  · intro _; simp [diffCheck, hd2]
  · simp [typeCheck, c]
  · simp [constCheck, c]
  · intro hda
    have : i.difficulty = defaultDifficulty := by rcases hdallow with h | h; exact h; rw [hda] at h; cases h
    simp [forbidDiff, hd3 this]
  · simp [blobCheck, c, hb]
  · rw [hli]; exact .unknown _
  · rw [hli]; simp [encodeLabelsStmt]
  · simp [encodeInstr]
  · simp only [patch1, mkOvr, c]
    have hm : (Option.map (fun x => x % 65536) (if (i.mask != 0) = true then some i.mask else none)).getD 0 = i.mask := by
      by_cases h0 : i.mask = 0
      · simp [h0]
      · simp [h0, Nat.mod_eq_of_lt hmask16]
    have hx : arg0After (i.extra.map fun v => toSigned 2 (wrapTo 2 v)) none = i.extra := by
      cases hxe : i.extra with
      | none => rfl
      | some v => rw [hxe] at hext; simp [arg0After, trunc16 v hext]
    rw [hm, hx]
/-! ## the lowering-level stream of the decompiled script and the three passes over it -/

abbrev Item := RawInstr × FCall × Option (List Char)

def Item.li (L : Lang) (x : Item) : LInstr := mkInstr L (Int32.ofInt x.1.time) { x.2.1 with diff := x.2.2 }

def labStmts (offs : List Nat) (ris : List Time.RInstr) (k : Nat) : List LStmt :=
  (labInfos offs ris k).map fun info => .label info.time info.name

/-- what `build` makes of the statements `raiseFlat` emits from boundary `k` on -/
def codeFrom (L : Lang) (offs : List Nat) (ris : List Time.RInstr) : Nat → List Item → List LStmt
  | k, [] => labStmts offs ris k
  | k, x :: rest => labStmts offs ris k ++ .instr (x.li L) :: codeFrom L offs ris (k + 1) rest

def ovrFrom (items : List Item) : List Ovr := items.map fun x => mkOvr { x.2.1 with diff := x.2.2 }

/-- per-instruction facts, threaded through the furigana states and the running offset -/
def ItemsOk (L : Lang) (tbl : List LabelInfo) : EncState → Nat → List Item → Prop
  | _, _, [] => True
  | st, off, x :: rest =>
    ∃ (st' : EncState) (real : LInstr) (raw : RawInstr),
      InstrReal (x.li L) real ∧
      encodeLabelsStmt L.mode tbl off (.instr (x.li L)) = .ok (.instr real) ∧
      encodeInstr L.hasRegs st real = .ok (raw, st') ∧ patch1 (mkOvr { x.2.1 with diff := x.2.2 }) raw = x.1 ∧
      ItemsOk L tbl st' (off + instrSize L.hdr x.1) rest

theorem drop_cons_getD {l : List Nat} {k x : Nat} {t : List Nat} (h : l.drop k = x :: t) :
    l.getD k 0 = x ∧ l.drop (k + 1) = t ∧ k < l.length := by
  have hk : k < l.length := by
    by_cases hk : k < l.length
    · exact hk
    · rw [List.drop_eq_nil_of_le (by omega)] at h; cases h
  refine ⟨?_, ?_, hk⟩
  · have : l.getD k 0 = ((l.drop k)[0]?).getD 0 := by simp [List.getD_eq_getElem?_getD, List.getElem?_drop]
    rw [this, h]; rfl
  · rw [← List.drop_drop, h]; rfl

theorem tblFrom_succ (offs : List Nat) (ris : List Time.RInstr) (k m : Nat) :
    tblFrom offs ris k (m + 1) = labInfos offs ris k ++ tblFrom offs ris (k + 1) m := rfl

theorem gatherAux_label_eq (hdr : Nat) (hr : Bool) (off : Nat) (st : EncState) (seen : List String) (t : Int) (n : String)
    (rest : List LStmt) (g : Gather) (h : seen.contains n = false) (hg : gatherAux hdr hr off st (n :: seen) rest = .ok g) :
    gatherAux hdr hr off st seen (.label t n :: rest) = .ok { g with stmtOffsets := off :: g.stmtOffsets, labels := ⟨n, off, t⟩ :: g.labels } := by
  simp only [gatherAux, h, Bool.false_eq_true, if_false, hg]

theorem contains_iff_mem (seen : List String) (n : String) : seen.contains n = true ↔ n ∈ seen := by
  simp

/-- gather, encode_labels and the second pass on the stream, from boundary `k` on -/
theorem passes (L : Lang) (offs : List Nat) (hnd : offs.Nodup) (ris : List Time.RInstr) (tbl : List LabelInfo) :
    ∀ (items : List Item) (k off : Nat) (st : EncState) (seen : List String),
    offs.drop k = offsetsFrom off (items.map (fun x => instrSize L.hdr x.1) ++ [0]) →
    (∀ j l, k ≤ j → j < offs.length → Time.labelFor ris j = some l → labelName offs l.name ∉ seen) →
    ItemsOk L tbl st off items →
    ∃ (g : Gather) (code' : List LStmt) (raws : List RawInstr),
      gatherAux L.hdr L.hasRegs off st seen (codeFrom L offs ris k items) = .ok g ∧
      g.labels = tblFrom offs ris k (items.length + 1) ∧
      encodeLabelsAux L.mode tbl g.stmtOffsets (codeFrom L offs ris k items) = .ok code' ∧
      secondPass L.hasRegs st code' = .ok raws ∧ patch (ovrFrom items) raws = items.map (·.1) := by
  intro items
  induction items with
  | nil =>
    intro k off st seen hoffs hseen _
    simp only [List.map_nil, List.nil_append, offsetsFrom] at hoffs
    obtain ⟨hoff, _, hk⟩ := drop_cons_getD hoffs
    simp only [codeFrom, labStmts, List.length_nil, Nat.zero_add, tblFrom, List.append_nil]
    cases hl : Time.labelFor ris k with
    | none =>
      simp only [labInfos, hl, List.map_nil]
      exact ⟨⟨[], [], [], off⟩, [], [], by simp [gatherAux], rfl, by simp [encodeLabelsAux], by simp [secondPass], by simp [patch, ovrFrom]⟩
    | some l =>
      have hns := hseen k l (Nat.le_refl _) hk hl
      simp only [labInfos, hl, List.map_cons, List.map_nil]
      refine ⟨⟨[off], [], [⟨labelName offs l.name, off, l.time.toInt⟩], off⟩, [.label l.time.toInt (labelName offs l.name)], [], ?_, by rw [hoff], ?_, by simp [secondPass], by simp [patch, ovrFrom]⟩
      · have : seen.contains (labelName offs l.name) = false := by
          cases hc : seen.contains (labelName offs l.name) with
          | false => rfl
          | true => exact absurd ((contains_iff_mem _ _).mp hc) hns
        simp only [gatherAux, this, Bool.false_eq_true, if_false]
      · simp [encodeLabelsAux, encodeLabelsStmt]
  | cons x rest ih =>
    intro k off st seen hoffs hseen hok
    simp only [List.map_cons, List.cons_append, offsetsFrom] at hoffs
    obtain ⟨hoff, hdrop, hk⟩ := drop_cons_getD hoffs
    obtain ⟨st', real, raw, hreal, henc, hsec, hpatch, hrest⟩ := hok
    -- the instruction: the dummy has the size of the real thing
    obtain ⟨rawd, hdum, hlen, _⟩ := dummy_same_size L.hasRegs st (x.li L) real raw st' hreal hsec
    have hsize : instrSize L.hdr rawd = instrSize L.hdr x.1 := by
      have : raw.blob = x.1.blob := by rw [← hpatch]; rfl
      simp [instrSize, hlen, this]
    -- the rest of the script, with whatever label names were seen
    have hrestAll : ∀ seen', (∀ j l, k + 1 ≤ j → j < offs.length → Time.labelFor ris j = some l → labelName offs l.name ∉ seen') →
        ∃ (g : Gather) (code' : List LStmt) (raws : List RawInstr),
          gatherAux L.hdr L.hasRegs (off + instrSize L.hdr x.1) st' seen' (codeFrom L offs ris (k + 1) rest) = .ok g ∧
          g.labels = tblFrom offs ris (k + 1) (rest.length + 1) ∧
          encodeLabelsAux L.mode tbl g.stmtOffsets (codeFrom L offs ris (k + 1) rest) = .ok code' ∧
          secondPass L.hasRegs st' code' = .ok raws ∧ patch (ovrFrom rest) raws = rest.map (·.1) :=
      fun seen' hs' => ih (k + 1) _ st' seen' hdrop hs' hrest
    -- instruction + rest
    have hinstr : ∀ seen', (∀ j l, k + 1 ≤ j → j < offs.length → Time.labelFor ris j = some l → labelName offs l.name ∉ seen') →
        ∃ (g : Gather) (code' : List LStmt) (raws : List RawInstr),
          gatherAux L.hdr L.hasRegs off st seen' (.instr (x.li L) :: codeFrom L offs ris (k + 1) rest) = .ok g ∧
          g.labels = tblFrom offs ris (k + 1) (rest.length + 1) ∧
          encodeLabelsAux L.mode tbl g.stmtOffsets (.instr (x.li L) :: codeFrom L offs ris (k + 1) rest) = .ok code' ∧
          secondPass L.hasRegs st code' = .ok raws ∧ patch (ovrFrom (x :: rest)) raws = (x :: rest).map (·.1) := by
      intro seen' hs'
      obtain ⟨g1, code1, raws1, hg1, hl1, he1, hs1, hp1⟩ := hrestAll seen' hs'
      refine ⟨{ g1 with stmtOffsets := off :: g1.stmtOffsets, instrs := off :: g1.instrs }, .instr real :: code1, raw :: raws1, ?_, hl1, ?_, ?_, ?_⟩
      · simp only [gatherAux, hdum, hsize, hg1]
      · simp only [encodeLabelsAux, henc, he1]
      · simp only [secondPass, hsec, hs1]
      · simp only [ovrFrom, List.map_cons, patch, hpatch]
        simp only [ovrFrom] at hp1
        rw [hp1]
    rw [show (x :: rest).length + 1 = (rest.length + 1) + 1 from rfl, tblFrom_succ]
    simp only [codeFrom, labStmts]
    cases hl : Time.labelFor ris k with
    | none =>
      simp only [labInfos, hl, List.map_nil, List.nil_append]
      exact hinstr seen (fun j l hj hjl hlj => hseen j l (by omega) hjl hlj)
    | some l =>
      have hns := hseen k l (Nat.le_refl _) hk hl
      simp only [labInfos, hl, List.map_cons, List.map_nil, List.cons_append, List.nil_append]
      obtain ⟨g1, code1, raws1, hg1, hl1, he1, hs1, hp1⟩ := hinstr (labelName offs l.name :: seen) (by
        intro j l2 hj hjl hlj
        simp only [List.mem_cons, not_or]
        refine ⟨?_, hseen j l2 (by omega) hjl hlj⟩
        exact labelNames_distinct offs hnd ris j k l2 l hjl hk (by omega) hlj hl)
      refine ⟨{ g1 with stmtOffsets := off :: g1.stmtOffsets, labels := ⟨labelName offs l.name, off, l.time.toInt⟩ :: g1.labels },
        .label l.time.toInt (labelName offs l.name) :: code1, raws1, ?_, by rw [hoff]; simp [hl1], ?_, ?_, hp1⟩
      · have : seen.contains (labelName offs l.name) = false := by
          cases hc : seen.contains (labelName offs l.name) with
          | false => rfl
          | true => exact absurd ((contains_iff_mem _ _).mp hc) hns
        exact gatherAux_label_eq _ _ _ _ _ _ _ _ _ this hg1
      · simp only [encodeLabelsAux, encodeLabelsStmt, he1]
      · simp only [secondPass, hs1]
/-! ## the emitted statements and what `build` makes of them -/

theorem lastTime_snoc (rs : List Time.RInstr) (r : Time.RInstr) : lastTime (rs ++ [r]) = r.time := by
  simp [lastTime]

theorem timeAt_mid (rpre rsuf : List Time.RInstr) (r : Time.RInstr) :
    Time.timeAt (rpre ++ r :: rsuf) rpre.length = r.time := by
  simp [Time.timeAt]

theorem timeAt_end (ris : List Time.RInstr) : Time.timeAt ris ris.length = lastTime ris := by
  simp only [Time.timeAt, lastTime, List.getElem?_eq_none (Nat.le_refl _)]
  cases ris.getLast? <;> rfl

theorem prevTimeAt_eq (rpre rsuf : List Time.RInstr) :
    Time.prevTimeAt (rpre ++ rsuf) rpre.length = lastTime rpre := by
  cases hp : rpre.length with
  | zero =>
    have : rpre = [] := List.length_eq_zero_iff.mp hp
    subst this; rfl
  | succ m =>
    simp only [Time.prevTimeAt, lastTime]
    have hm : m < rpre.length := by omega
    rw [List.getElem?_append_left hm, List.getLast?_eq_getElem?]
    have : rpre.length - 1 = m := by omega
    rw [this]
    cases rpre[m]? <;> rfl

theorem emitLabels_ok (prev time : Int32) (lab : Option Time.Label)
    (h : ∀ l, lab = some l → l.time = prev ∨ l.time = time) : ∃ os, Time.emitLabels prev time lab = .ok os := by
  cases lab with
  | none => exact ⟨_, rfl⟩
  | some l =>
    simp only [Time.emitLabels]
    by_cases h2 : l.time = prev
    · rw [if_pos h2]; exact ⟨_, rfl⟩
    · rcases h l rfl with h1 | h1
      · exact absurd h1 h2
      · rw [if_neg h2, if_pos h1]; exact ⟨_, rfl⟩

/-- label and time-label statements: `build` moves the time and keeps the labels -/
theorem build_labels (L : Lang) (offs : List Nat) : ∀ (os : List Time.Out) (t : Int32) (rest : List FlatStmt),
    Time.Out.instr ∉ os →
    build L t (os.filterMap (outToFlat offs) ++ rest) =
      (((Time.labelTimesFrom t os).map fun p => LStmt.label p.2.toInt (labelName offs p.1)) ++ (build L (os.foldl Time.stepOut t) rest).1,
       (build L (os.foldl Time.stepOut t) rest).2) := by
  intro os
  induction os with
  | nil => intro t rest _; simp [Time.labelTimesFrom]
  | cons o os ih =>
    intro t rest hni
    have hni' : Time.Out.instr ∉ os := fun h => hni (List.mem_cons_of_mem _ h)
    cases o with
    | label n =>
      simp only [List.filterMap_cons, outToFlat, List.cons_append, build, Time.labelTimesFrom, List.map_cons, List.foldl_cons, Time.stepOut]
      rw [ih t rest hni']
    | abs v =>
      simp only [List.filterMap_cons, outToFlat, List.cons_append, build, Time.labelTimesFrom, List.foldl_cons, Time.stepOut]
      exact ih v rest hni'
    | rel d =>
      simp only [List.filterMap_cons, outToFlat, List.cons_append, build, Time.labelTimesFrom, List.foldl_cons, Time.stepOut]
      exact ih (t + d) rest hni'
    | instr => exact absurd List.mem_cons_self hni

theorem firstErr_labels (f : FCall → Outcome Unit) (offs : List Nat) : ∀ (os : List Time.Out) (rest : List FlatStmt),
    firstErr f (os.filterMap (outToFlat offs) ++ rest) = firstErr f rest := by
  intro os
  induction os with
  | nil => intro rest; rfl
  | cons o os ih =>
    intro rest
    cases o <;> simp only [List.filterMap_cons, outToFlat, List.cons_append, firstErr] <;> exact ih rest

theorem labStmts_of_times (offs : List Nat) (ris : List Time.RInstr) (k : Nat) :
    ((Time.labelFor ris k).map fun l => (l.name, l.time)).toList.map (fun p => LStmt.label p.2.toInt (labelName offs p.1))
      = labStmts offs ris k := by
  simp only [labStmts, labInfos]
  cases Time.labelFor ris k <;> rfl

theorem emit_build (L : Lang) (offs : List Nat) (ris : List Time.RInstr) :
    ∀ (items : List Item) (rpre rsuf : List Time.RInstr),
    ris = rpre ++ rsuf → rsuf.map (·.time) = items.map (fun x => Int32.ofInt x.1.time) →
    (∀ x ∈ items, diffLabel L x.1.difficulty = .ok x.2.2) →
    ∃ ss, emitFrom L offs ris (lastTime rpre) rpre.length (items.map fun x => (x.1, x.2.1)) = .ok ss ∧
      build L (lastTime rpre) ss = (codeFrom L offs ris rpre.length items, ovrFrom items) ∧
      ∀ f : FCall → Outcome Unit, (∀ x ∈ items, f { x.2.1 with diff := x.2.2 } = .ok ()) → firstErr f ss = .ok () := by
  intro items
  induction items with
  | nil =>
    intro rpre rsuf hris htimes _
    have : rsuf = [] := by simpa using htimes
    subst this
    simp only [List.append_nil] at hris
    subst hris
    simp only [List.map_nil, emitFrom]
    have hlt : ∀ l, Time.labelFor ris ris.length = some l → l.time = lastTime ris := by
      intro l hl
      have := C13.labelFor_time ris ris.length l hl
      have h1 := prevTimeAt_eq ris []
      simp only [List.append_nil] at h1
      rw [h1, timeAt_end] at this
      rcases this with h | h <;> exact h
    have htime : endTime ris (Time.labelFor ris ris.length) = lastTime ris := by
      cases hl : Time.labelFor ris ris.length with
      | none => rfl
      | some l => exact hlt l hl
    rw [htime]
    obtain ⟨os, hos⟩ := emitLabels_ok (lastTime ris) (lastTime ris) (Time.labelFor ris ris.length) (fun l hl => .inl (hlt l hl))
    obtain ⟨hfold, hni, hlabs⟩ := C13.emitLabels_spec _ _ _ _ hos
    refine ⟨os.filterMap (outToFlat offs), by simp [hos], ?_, ?_⟩
    · have := build_labels L offs os (lastTime ris) [] hni
      simp only [List.append_nil] at this
      rw [this, hlabs, labStmts_of_times]
      simp [build, codeFrom, ovrFrom]
    · intro f _
      have := firstErr_labels f offs os []
      simp only [List.append_nil] at this
      rw [this]; rfl
  | cons x rest ih =>
    intro rpre rsuf hris htimes hdiff
    cases rsuf with
    | nil => simp at htimes
    | cons r rsuf' =>
      simp only [List.map_cons, List.cons.injEq] at htimes
      obtain ⟨hrt, htimes'⟩ := htimes
      have hris' : ris = (rpre ++ [r]) ++ rsuf' := by rw [hris]; simp
      obtain ⟨ss', hem', hb', hf'⟩ := ih (rpre ++ [r]) rsuf' hris' htimes' (fun y hy => hdiff y (List.mem_cons_of_mem _ hy))
      rw [lastTime_snoc] at hem' hb'
      have hlen : (rpre ++ [r]).length = rpre.length + 1 := by simp
      rw [hlen] at hem' hb'
      have hlab : ∀ l, Time.labelFor ris rpre.length = some l → l.time = lastTime rpre ∨ l.time = Int32.ofInt x.1.time := by
        intro l hl
        have := C13.labelFor_time ris rpre.length l hl
        rw [hris, prevTimeAt_eq, timeAt_mid, hrt] at this
        exact this
      obtain ⟨os, hos⟩ := emitLabels_ok (lastTime rpre) (Int32.ofInt x.1.time) (Time.labelFor ris rpre.length) hlab
      obtain ⟨hfold, hni, hlabs⟩ := C13.emitLabels_spec _ _ _ _ hos
      have hd := hdiff x List.mem_cons_self
      rw [hrt] at hem' hb'
      refine ⟨os.filterMap (outToFlat offs) ++ .call { x.2.1 with diff := x.2.2 } :: ss', ?_, ?_, ?_⟩
      · simp only [List.map_cons, emitFrom, hos, hd, hem']
      · rw [build_labels L offs os (lastTime rpre) _ hni, hfold, hlabs, labStmts_of_times]
        simp only [build, hb', codeFrom, ovrFrom, List.map_cons, Item.li]
      · intro f hfx
        rw [firstErr_labels]
        simp only [firstErr, hfx x List.mem_cons_self, seqU]
        exact hf' f (fun y hy => hfx y (List.mem_cons_of_mem _ hy))
/-! ## the whole script -/

def earlies (L : Lang) (a : Bool) : Nat → List RawInstr → List Early
  | _, [] => []
  | off, i :: rest => earlyOf L a off i :: earlies L a (off + instrSize L.hdr i) rest

theorem earlies_raw (L : Lang) (a : Bool) : ∀ (is : List RawInstr) (off : Nat), (earlies L a off is).map (·.raw) = is := by
  intro is
  induction is with
  | nil => intro off; rfl
  | cons i rest ih =>
    intro off
    simp only [earlies, List.map_cons, ih, List.cons.injEq, and_true]
    simp only [earlyOf]
    split
    · rfl
    · split <;> rfl

theorem earlies_length (L : Lang) (a : Bool) (is : List RawInstr) (off : Nat) : (earlies L a off is).length = is.length := by
  have := congrArg List.length (earlies_raw L a is off)
  simpa using this

/-- a canonical script decodes without any warning -/
theorem canon_decodeAll (L : Lang) (a : Bool) : ∀ (is : List RawInstr) (st : EncState) (off : Nat),
    canonFrom L a st is = true → decodeAll L a off is = .ok (earlies L a off is, []) := by
  intro is
  induction is with
  | nil => intro st off _; rfl
  | cons i rest ih =>
    intro st off h
    simp only [canonFrom] at h
    cases hc : canonInstr L a st i with
    | none => rw [hc] at h; cases h
    | some st' =>
      rw [hc] at h; simp only at h
      have ih' := ih st' (off + instrSize L.hdr i) h
      cases hs : effSig L a i.opcode with
      | none => simp [decodeAll, hs, ih', earlies, earlyOf]
      | some abi =>
        obtain ⟨_, full, a0, _, _, hdec, _⟩ := canonInstr_known hs hc
        simp [decodeAll, hs, hdec, ih', earlies, earlyOf]

theorem labelFor_of_jump (ris : List Time.RInstr) (r : Time.RInstr) (hr : r ∈ ris) (k : Nat) (tm : Option Int32)
    (hj : r.jump = some (k, tm)) : ∃ l, Time.labelFor ris k = some l := by
  have hne : Time.jumpArgs ris k ≠ [] := by
    intro h
    simp only [Time.jumpArgs, List.filterMap_eq_nil_iff] at h
    have := h r hr
    simp [hj] at this
  simp only [Time.labelFor]
  cases h : Time.jumpArgs ris k with
  | nil => exact absurd h hne
  | cons x xs => exact ⟨_, rfl⟩

/-- what the round trip needs to know about the jump of one decoded instruction -/
def JumpOk (L : Lang) (offs : List Nat) (ris : List Time.RInstr) (tbl : List LabelInfo) (e : Early) : Prop :=
  ∀ kd tm, e.jump L.mode offs = some (kd, tm) → kd < offs.length ∧ ∃ l, Time.labelFor ris kd = some l ∧
    lookupLabel tbl (labelName offs l.name) = some ⟨labelName offs l.name, offs.getD kd 0, l.time.toInt⟩

/-- raising the calls of a canonical script, and the per-instruction facts for the way back -/
theorem items_of_canon (L : Lang) (a : Bool) (offs : List Nat) (ris : List Time.RInstr) (tbl : List LabelInfo)
    (hinv : C14.Inv L.defs) : ∀ (is : List RawInstr) (st : EncState) (off : Nat),
    canonFrom L a st is = true →
    (∀ i ∈ is, ∀ abi, effSig L a i.opcode = some abi → validAbi abi = true) →
    (∀ e ∈ earlies L a off is, JumpOk L offs ris tbl e) →
    ∃ items : List Item, items.map (·.1) = is ∧ ItemsOk L tbl st off items ∧
      raiseCalls L offs ris (earlies L a off is) = .ok (items.map (·.2.1), []) ∧
      (∀ x ∈ items, diffLabel L x.1.difficulty = .ok x.2.2) ∧
      (∀ x ∈ items, (L.diffAllowed = true → diffCheck L { x.2.1 with diff := x.2.2 } = .ok ()) ∧
        typeCheck L { x.2.1 with diff := x.2.2 } = .ok () ∧ constCheck L { x.2.1 with diff := x.2.2 } = .ok () ∧
        (L.diffAllowed = false → forbidDiff { x.2.1 with diff := x.2.2 } = .ok ()) ∧ blobCheck { x.2.1 with diff := x.2.2 } = .ok ()) := by
  intro is
  induction is with
  | nil => intro st off _ _ _; exact ⟨[], rfl, trivial, rfl, by simp, by simp⟩
  | cons i rest ih =>
    intro st off h hvalid hjump
    simp only [canonFrom] at h
    cases hc : canonInstr L a st i with
    | none => rw [hc] at h; cases h
    | some st' =>
      rw [hc] at h; simp only at h
      obtain ⟨items, hi1, hi2, hi3, hi4, hi5⟩ := ih st' (off + instrSize L.hdr i) h
        (fun j hj => hvalid j (List.mem_cons_of_mem _ hj))
        (fun e he => hjump e (by simp only [earlies]; exact List.mem_cons_of_mem _ he))
      have hje : JumpOk L offs ris tbl (earlyOf L a off i) := hjump _ (by simp [earlies])
      have hfacts : ∃ (c : FCall) (d : Option (List Char)) (real : LInstr) (raw : RawInstr),
          raiseCall L offs ris (earlyOf L a off i) = .ok (c, []) ∧ diffLabel L i.difficulty = .ok d ∧
          (L.diffAllowed = true → diffCheck L { c with diff := d } = .ok ()) ∧
          typeCheck L { c with diff := d } = .ok () ∧ constCheck L { c with diff := d } = .ok () ∧
          (L.diffAllowed = false → forbidDiff { c with diff := d } = .ok ()) ∧ blobCheck { c with diff := d } = .ok () ∧
          InstrReal (mkInstr L (Int32.ofInt i.time) { c with diff := d }) real ∧
          encodeLabelsStmt L.mode tbl off (.instr (mkInstr L (Int32.ofInt i.time) { c with diff := d })) = .ok (.instr real) ∧
          encodeInstr L.hasRegs st real = .ok (raw, st') ∧ patch1 (mkOvr { c with diff := d }) raw = i := by
        cases hs : effSig L a i.opcode with
        | none => exact instr_unknown L a offs ris tbl st st' i off hs hinv hc
        | some abi =>
          exact instr_known L a offs ris tbl st st' i off abi hs (hvalid i List.mem_cons_self abi hs) hinv hc hje
      obtain ⟨c, d, real, raw, f1, f2, f3, f4, f5, f6, f7, f8, f9, f10, f11⟩ := hfacts
      refine ⟨(i, c, d) :: items, by simp [hi1], ⟨st', real, raw, f8, f9, f10, f11, hi2⟩, ?_, ?_, ?_⟩
      · simp [earlies, raiseCalls, f1, hi3]
      · intro x hx
        simp only [List.mem_cons] at hx
        rcases hx with hx | hx
        · subst hx; exact f2
        · exact hi4 x hx
      · intro x hx
        simp only [List.mem_cons] at hx
        rcases hx with hx | hx
        · subst hx; exact ⟨f3, f4, f5, f6, f7⟩
        · exact hi5 x hx
/-! ## the call checks on decoded arguments -/

theorem checks_of_wf : ∀ (abi : Abi) (full : List Arg), argsWF abi full = true → noArg0 abi = true →
    (dropPadding abi full).length = (abi.filter Enc.contributes).length ∧
    checkTypes (abi.filter Enc.contributes) (dropPadding abi full) = .ok () ∧
    checkConst (abi.filter Enc.contributes) (dropPadding abi full) = .ok () := by
  intro abi
  induction abi with
  | nil => intro full h _; cases full <;> simp [argsWF, dropPadding, checkTypes, checkConst] at h ⊢
  | cons e es ih =>
    intro full h hna
    cases full with
    | nil => simp [argsWF] at h
    | cons a as =>
      simp only [argsWF, Bool.and_eq_true] at h
      simp only [noArg0, List.all_cons, Bool.and_eq_true, Bool.not_eq_true'] at hna
      obtain ⟨i1, i2, i3⟩ := ih as h.2 hna.2
      by_cases hp : e.isPadding = true
      · have : Enc.contributes e = false := by simp [Enc.contributes, hp]
        simp only [dropPadding, hp, if_true, List.filter_cons, this, Bool.false_eq_true, if_false]
        exact ⟨i1, i2, i3⟩
      · have hp' : e.isPadding = false := by simpa using hp
        have : Enc.contributes e = true := by simp [Enc.contributes, hp']
        simp only [dropPadding, hp', Bool.false_eq_true, if_false, List.filter_cons, this, if_true, List.length_cons, i1,
          checkTypes, checkConst, i2, i3, true_and]
        have hwf := h.1
        cases e with
        | int iw s z imm =>
          have hz : z = false := by cases z <;> simp [Enc.isArg0] at hna ⊢
          subst hz
          cases a <;> simp [argWF] at hwf
          simp [Arg.ty, Enc.ty, Enc.regOk]
        | jumpOffset => cases a <;> simp [argWF] at hwf; simp [Arg.ty, Enc.ty, Enc.regOk, Arg.isReg, hwf.2]
        | jumpTime => cases a <;> simp [argWF] at hwf; simp [Arg.ty, Enc.ty, Enc.regOk, Arg.isReg, hwf.2]
        | padding w => simp [Enc.isPadding] at hp'
        | float imm => cases a <;> simp [argWF] at hwf; simp [Arg.ty, Enc.ty, Enc.regOk]
        | str sz m f => cases a <;> simp [argWF] at hwf; simp [Arg.ty, Enc.ty, Enc.regOk]

theorem checkCall_of_wf (abi : Abi) (full : List Arg) (hwf : argsWF abi full = true) (hna : noArg0 abi = true) :
    checkCall abi (dropPadding abi full) = .ok () := by
  obtain ⟨h1, h2, h3⟩ := checks_of_wf abi full hwf hna
  simp [checkCall, h1, h2, h3]

theorem noArg0_mem (abi : Abi) (h : noArg0 abi = true) : ∀ e ∈ abi, e.isArg0 = false := by
  intro e he
  simp only [noArg0, List.all_eq_true, Bool.not_eq_true'] at h
  exact h e he

theorem decodeInstr_arg0_passthrough (abi : Abi) (i : RawInstr) (full : List Arg) (a0 : Option Int) (w : List String)
    (hna : noArg0 abi = true) (h : decodeInstr abi i = .ok ((full, a0), w)) : a0 = i.extra := by
  simp only [decodeInstr] at h
  cases hd : decLoop abi i.blob i.mask i.extra with
  | ok o =>
    rw [hd] at h; simp only [Outcome.ok.injEq, Prod.mk.injEq] at h; rw [← h.1.2]
    exact decLoop_arg0_passthrough abi (noArg0_mem abi hna) _ _ _ _ hd
  | err c => rw [hd] at h; cases h
  | panic p => rw [hd] at h; cases h

/-! ## warnings reach the user -/

theorem decodeAll_warnings (L : Lang) (a : Bool) : ∀ (is : List RawInstr) (off : Nat) (es : List Early) (ws : List String),
    decodeAll L a off is = .ok (es, ws) → ∀ i ∈ is, ∀ abi full a0 w, effSig L a i.opcode = some abi →
    decodeInstr abi i = .ok ((full, a0), w) →
    (∀ x ∈ w, x ∈ ws) ∧ ∃ e ∈ es, e.raw = i ∧ e.dec = some (abi, full) := by
  intro is
  induction is with
  | nil => intro off es ws _ i hi; cases hi
  | cons j rest ih =>
    intro off es ws h i hi abi full a0 w hs hd
    simp only [decodeAll] at h
    cases hsj : effSig L a j.opcode with
    | none =>
      rw [hsj] at h; simp only at h
      cases hr : decodeAll L a (off + instrSize L.hdr j) rest with
      | ok r =>
        obtain ⟨es1, ws1⟩ := r
        rw [hr] at h; simp only [Outcome.ok.injEq, Prod.mk.injEq] at h
        obtain ⟨h1, h2⟩ := h; subst h1; subst h2
        simp only [List.mem_cons] at hi
        rcases hi with hi | hi
        · subst hi; rw [hs] at hsj; cases hsj
        · obtain ⟨p1, e, he, p2⟩ := ih _ _ _ hr i hi abi full a0 w hs hd
          exact ⟨p1, e, List.mem_cons_of_mem _ he, p2⟩
      | err c => rw [hr] at h; cases h
      | panic p => rw [hr] at h; cases h
    | some abij =>
      rw [hsj] at h; simp only at h
      cases hdj : decodeInstr abij j with
      | ok rj =>
        obtain ⟨⟨fullj, a0j⟩, wj⟩ := rj
        rw [hdj] at h; simp only at h
        cases hr : decodeAll L a (off + instrSize L.hdr j) rest with
        | ok r =>
          obtain ⟨es1, ws1⟩ := r
          rw [hr] at h; simp only [Outcome.ok.injEq, Prod.mk.injEq] at h
          obtain ⟨h1, h2⟩ := h; subst h1; subst h2
          simp only [List.mem_cons] at hi
          rcases hi with hi | hi
          · subst hi
            rw [hs] at hsj; cases hsj
            rw [hd] at hdj; cases hdj
            exact ⟨fun x hx => List.mem_append_left _ hx, _, List.mem_cons_self, rfl, rfl⟩
          · obtain ⟨p1, e, he, p2⟩ := ih _ _ _ hr i hi abi full a0 w hs hd
            exact ⟨fun x hx => List.mem_append_right _ (p1 x hx), e, List.mem_cons_of_mem _ he, p2⟩
        | err c => rw [hr] at h; cases h
        | panic p => rw [hr] at h; cases h
      | err c => rw [hdj] at h; cases h
      | panic p => rw [hdj] at h; cases h

theorem raiseCalls_warnings (L : Lang) (offs : List Nat) (ris : List Time.RInstr) : ∀ (es : List Early) (cs : List FCall) (ws : List String),
    raiseCalls L offs ris es = .ok (cs, ws) → ∀ e ∈ es, ∀ abi full, e.dec = some (abi, full) → nonzeroPadding abi full = true →
    paddingMsg ∈ ws := by
  intro es
  induction es with
  | nil => intro cs ws _ e he; cases he
  | cons e0 rest ih =>
    intro cs ws h e he abi full hdec hnz
    simp only [raiseCalls] at h
    cases hc : raiseCall L offs ris e0 with
    | ok r =>
      obtain ⟨c, w⟩ := r
      rw [hc] at h; simp only at h
      cases hr : raiseCalls L offs ris rest with
      | ok r2 =>
        obtain ⟨cs1, ws1⟩ := r2
        rw [hr] at h; simp only [Outcome.ok.injEq, Prod.mk.injEq] at h
        obtain ⟨_, h2⟩ := h; subst h2
        simp only [List.mem_cons] at he
        rcases he with he | he
        · subst he
          simp only [raiseCall, hdec] at hc
          cases ha : raiseArgs L (destLabel L.mode offs ris e) abi full with
          | ok ra =>
            obtain ⟨xs, wa⟩ := ra
            rw [ha] at hc; simp only [Outcome.ok.injEq, Prod.mk.injEq, hnz, if_true] at hc
            rw [← hc.2]
            exact List.mem_append_left _ (List.mem_append_right _ (by simp))
          | err c => rw [ha] at hc; cases hc
          | panic p => rw [ha] at hc; cases hc
        · exact List.mem_append_right _ (ih _ _ hr e he abi full hdec hnz)
      | err c => rw [hr] at h; cases h
      | panic p => rw [hr] at h; cases h
    | err c => rw [hc] at h; cases h
    | panic p => rw [hc] at h; cases h

end TruthModel.RoundTrip
