/-
C07, semantic half: `decompile_if_else` preserves the resolved code (`ifElseBlock_sem`).
One cond block `if (a op b) goto L; body; goto End; L:` becomes the arm `if (a negop b) { body }`
whose lowering starts with `unless (a negop b) goto fresh` = `if (a op b) goto fresh` with `fresh`
at the code index of `L`, and ends with a jump to the end of the chain, which is where `End` stands.
-/
import TruthModel.Lemmas.DecompDen
import TruthModel.Lemmas.DecompGatherSem
namespace TruthModel.Decomp
open List

/-! ### positions inside a block -/

theorem take_of_drop_append {α} {ss c r : List α} {i : Nat} (h : ss.drop i = c ++ r) :
    ss.take (i + c.length) = ss.take i ++ c := by
  rw [List.take_add, h, List.take_left']
  rfl

theorem inv_drop {pos f} {ss : List Stmt} {o : Nat} (h : InvL pos f ss o) (i : Nat) :
    InvL pos f (ss.drop i) (o + clenL (ss.take i)) := by
  have h' : InvL pos f (ss.take i ++ ss.drop i) o := by rw [List.take_append_drop]; exact h
  rw [InvL_append] at h'
  exact h'.2

theorem inv_at {pos f} {ss : List Stmt} {o : Nat} (h : InvL pos f ss o) {i : Nat} {s : Stmt} (hs : ss[i]? = some s) :
    InvS pos f s (o + clenL (ss.take i)) := by
  have hi : i < ss.length := by
    rcases Nat.lt_or_ge i ss.length with h' | h'
    · exact h'
    · rw [List.getElem?_eq_none h'] at hs; cases hs
  have hd := inv_drop h i
  rw [List.drop_eq_getElem_cons hi, InvL_cons] at hd
  rw [List.getElem?_eq_getElem hi] at hs
  rw [← Option.some.inj hs]; exact hd.1

theorem pos_of_labelIndex {pos f} {ss : List Stmt} {o : Nat} (h : InvL pos f ss o) {d i : Nat}
    (hl : labelIndex ss d = some i) : pos d = some (o + clenL (ss.take i)) := by
  obtain ⟨dl, hdl⟩ := labelIndex_spec hl
  simpa using inv_at h hdl

theorem clenL_take_succ {ss : List Stmt} {i : Nat} {s : Stmt} (h : ss[i]? = some s) :
    clenL (ss.take (i + 1)) = clenL (ss.take i) + clenS s := by
  rw [take_succ_of_getElem h, clenL_append]; simp

theorem isLabelStmt_clen {s : Stmt} (h : isLabelStmt s = true) : clenS s = 0 := by
  unfold isLabelStmt at h
  split at h
  · simp [clenAtom]
  · cases h

/-- what a rewriting step of this pass guarantees: same resolved code, labels and loops stay where they are -/
structure Res (pos : Nat → Option Nat) (f : Nat → Nat) (xs ys : List Stmt) (o : Nat) : Prop where
  den : ∀ brk, denL pos brk ys o = denL pos brk xs o
  inv : InvL pos f ys o
  clen : clenL ys = clenL xs

theorem Res.rfl {pos f xs o} (h : InvL pos f xs o) : Res pos f xs xs o := ⟨fun _ => by rfl, h, by rfl⟩

theorem Res.append {pos f xs ys xs' ys' o} (h1 : Res pos f xs ys o) (h2 : Res pos f xs' ys' (o + clenL xs)) :
    Res pos f (xs ++ xs') (ys ++ ys') o := by
  refine ⟨fun brk => ?_, ?_, ?_⟩
  · rw [denL_append, denL_append, h1.den, h1.clen, h2.den]
  · rw [InvL_append, h1.clen]; exact ⟨h1.inv, h2.inv⟩
  · rw [clenL_append, clenL_append, h1.clen, h2.clen]

theorem Res.trans {pos f xs ys zs o} (h1 : Res pos f xs ys o) (h2 : Res pos f ys zs o) : Res pos f xs zs o :=
  ⟨fun brk => (h2.den brk).trans (h1.den brk), h2.inv, h2.clen.trans h1.clen⟩

/-! ### one cond block -/

theorem buildArm_sem {pos f} {ss : Block} {o e : Nat} {cb : CondBlockInfo} {st st' : BuildState} {arm : Stmt}
    (hinv : InvL pos f ss o) (hsync : st.rest = ss.drop st.index) (hfin : ArmFin ss e cb)
    (h : buildArm e cb st = .ok (arm, st')) (ee : Nat) (hee : ∀ dE, labelIndex ss dE = some e → pos dE = some ee) :
    ∃ consumed body, st.rest = consumed ++ st'.rest ∧ st'.index = st.index + consumed.length ∧
      st.index = cb.ifIndex ∧ st'.index = cb.labelIndex + 1 ∧ arm = .node (.arm .if_ cb.cond) body ∧
      clenL consumed = 1 + clenL body + (if cb.labelIndex = e then 0 else 1) ∧
      InvL pos f body (o + clenL (ss.take st.index) + 1) ∧
      ∀ brk, denL pos brk consumed (o + clenL (ss.take st.index)) =
        (none, .condJump (normCond .unless cb.cond).1 (normCond .unless cb.cond).2
            (.goto (o + clenL (ss.take st.index) + clenL consumed) none)) ::
          denL pos brk body (o + clenL (ss.take st.index) + 1) ++
          (if cb.labelIndex = e then [] else [(none, .jump (.goto ee none))]) := by
  obtain ⟨hidx, first, body, labelStmt, rest', hcj, hlab, rfl, rfl, hdrop, hcase⟩ := buildArm_ok h
  have hlt := hfin.lt
  obtain ⟨op, nop, a, b, d, hd, hld, hneg, hkw, hcond⟩ := hfin.head
  generalize hlen : cb.labelIndex - cb.ifIndex = len at hdrop hcase
  have hlen1 : 1 ≤ len := by omega
  have hsplit : st.rest = st.rest.take len ++ labelStmt :: rest' := by rw [← hdrop, List.take_append_drop]
  have hlong : len < st.rest.length := by
    have := congrArg List.length hdrop
    simp only [List.length_drop, List.length_cons] at this; omega
  have htl : (st.rest.take len).length = len := by simp [List.length_take]; omega
  -- the first statement is the conditional jump that `gather` looked at
  have hfirst : ∃ tl, st.rest.take len = first :: tl := by
    rcases hcase with ⟨_, hc⟩ | ⟨_, r, _, hc⟩
    · cases htk : st.rest.take len with
      | nil => rw [htk] at htl; simp at htl; omega
      | cons x tl => rw [htk] at hc; simp at hc; exact ⟨tl, by rw [hc.1]⟩
    · exact ⟨body ++ [r], by simpa using hc⟩
  obtain ⟨tl, htl'⟩ := hfirst
  have hss : ss[cb.ifIndex]? = some first := by
    apply getElem?_of_drop_eq_cons (xs := tl ++ labelStmt :: rest')
    rw [← hidx, ← hsync, hsplit, htl']; simp
  rw [hss] at hd
  have hfeq : first = .atom none (.condJump .if_ (.bin op a b) (.goto d none)) := Option.some.inj hd
  -- the statements up to the label, as a part of the block
  have htake : ss.take cb.labelIndex = ss.take st.index ++ st.rest.take len := by
    have := take_of_drop_append (ss := ss) (i := st.index) (c := st.rest.take len) (r := labelStmt :: rest')
      (by rw [← hsync]; exact hsplit)
    rw [htl] at this
    rwa [show st.index + len = cb.labelIndex by omega] at this
  have hposd : pos d = some (o + clenL (ss.take st.index) + clenL (st.rest.take len)) := by
    rw [pos_of_labelIndex hinv hld, htake, clenL_append, Nat.add_assoc]
  have hlclen : clenS labelStmt = 0 := isLabelStmt_clen hlab
  -- the consumed statements satisfy the invariant at their place
  have hinvc : InvL pos f (st.rest.take len ++ [labelStmt]) (o + clenL (ss.take st.index)) := by
    have := inv_drop hinv st.index
    rw [← hsync, hsplit] at this
    rw [show st.rest.take len ++ labelStmt :: rest' = (st.rest.take len ++ [labelStmt]) ++ rest' by simp, InvL_append] at this
    exact this.1
  refine ⟨st.rest.take len ++ [labelStmt], body, by simpa using hsplit, by simp [htl, Nat.add_assoc], hidx,
    by show st.index + len + 1 = cb.labelIndex + 1; omega, by rw [hkw], ?_⟩
  have hnc : normCond .unless cb.cond = (.if_, .bin op a b) := by rw [hcond]; exact normCond_unless_neg hneg a b
  rw [hnc]
  rcases hcase with ⟨he, hc⟩ | ⟨he, r, hr, hc⟩
  · -- the last block of a chain without `else`: the label stays inside
    rw [if_pos he, if_pos he, hc]
    have hcl : clenL (st.rest.take len) = 1 + clenL body := by
      have := congrArg clenL hc
      rw [clenL_append] at this
      simp only [clenL_cons, clenL_nil, hlclen, hfeq, clenS_atom, clenAtom] at this
      omega
    rw [hc] at hinvc
    refine ⟨by simp [hfeq, clenAtom], ?_, ?_⟩
    · rw [InvL_cons] at hinvc
      simpa [hfeq, clenAtom] using hinvc.2
    · intro brk
      simp only [denL_cons, hfeq, denS_atom, denAtom, denJ, rj, hposd, normCond_if, clenS_atom, clenAtom, hcl,
        List.singleton_append, List.append_nil, clenL_cons]
  · -- a block that is followed by another one: the jump to the end and the label go
    rw [if_neg he, if_neg he]
    obtain ⟨dE, hdE, hldE⟩ := hfin.tail he
    have hr' : ss[cb.labelIndex - 1]? = some r := by
      have h1 : st.rest = (first :: body) ++ r :: labelStmt :: rest' := by rw [hsplit, hc]; simp
      have h2 : (first :: body).length + 1 = len := by
        have := congrArg List.length hc; rw [htl] at this; simp at this; simp; omega
      have h3 : ss.drop (st.index + (first :: body).length) = r :: labelStmt :: rest' := by
        rw [← List.drop_drop, ← hsync, h1, List.drop_left]
      have h4 := getElem?_of_drop_eq_cons h3
      have : st.index + (first :: body).length = cb.labelIndex - 1 := by omega
      rwa [this] at h4
    rw [hr'] at hdE
    have hreq : r = .atom none (.jump (.goto dE none)) := Option.some.inj hdE
    have hcl : clenL (st.rest.take len) = 1 + clenL body + 1 := by
      have := congrArg clenL hc
      rw [clenL_append] at this
      simp only [clenL_cons, clenL_nil, hfeq, hreq, clenS_atom, clenAtom] at this
      omega
    rw [hc] at hinvc
    refine ⟨?_, ?_, ?_⟩
    · rw [hc, clenL_append, clenL_append]
      simp only [clenL_cons, clenL_nil, hfeq, hreq, hlclen, clenS_atom, clenAtom]
    · simp only [List.cons_append, InvL_cons] at hinvc
      have := hinvc.2
      rw [List.append_assoc, InvL_append] at this
      simpa [hfeq, clenAtom] using this.1
    · intro brk
      have hl : denS pos brk labelStmt (o + clenL (ss.take st.index) + 1 + clenL body + 1) = [] := by
        unfold isLabelStmt at hlab
        split at hlab
        · simp [denAtom]
        · cases hlab
      rw [hc]
      simp only [List.cons_append, List.append_assoc, denL_cons, denL_append, denL_nil, hfeq, hreq, denS_atom, denAtom, denJ, rj,
        hposd, normCond_if, clenS_atom, clenAtom, hcl, hee dE hldE, clenL_cons, clenL_append, clenL_nil, hlclen,
        List.singleton_append, List.append_nil, List.nil_append]
      rw [hl]
      have e1 : o + clenL (take st.index ss) + (1 + clenL body + 1) =
          o + clenL (take st.index ss) + (1 + (clenL body + (1 + (0 + 0)))) := by omega
      rw [e1]

/-! ### the cond blocks of a chain -/

theorem jtail_jcount_of {R : List Stmt} {p : Prop} [Decidable p] (h : R = [] ↔ p) (ee : Nat) :
    jcount R = (if p then 0 else 1) ∧ jtail ee R = (if p then [] else [(none, .jump (.goto ee none))]) := by
  cases R with
  | nil => have hp : p := h.mp rfl; simp [hp]
  | cons x xs => have hp : ¬ p := fun hp => by have := h.mpr hp; cases this
                 simp [hp]

theorem buildArms_sem {pos f} {ss : Block} {o e ee : Nat} (hinv : InvL pos f ss o)
    (hee : ∀ dE, labelIndex ss dE = some e → pos dE = some ee) :
    ∀ (cbs : List CondBlockInfo) (st st' : BuildState) (arms : List Stmt),
    st.rest = ss.drop st.index → (∀ cb ∈ cbs, ArmFin ss e cb) → buildArms e cbs st = .ok (arms, st') →
    ∃ consumed, st.rest = consumed ++ st'.rest ∧ st'.index = st.index + consumed.length ∧
      (cbs ≠ [] → 1 ≤ consumed.length ∧ arms ≠ []) ∧ (cbs = [] → arms = [] ∧ consumed = []) ∧
      ∀ tail, (tail = [] → st'.index = e + 1) → (tail ≠ [] → st'.index ≤ e) →
        (∀ brk, denArms pos brk ee (arms ++ tail) (o + clenL (ss.take st.index)) =
          denL pos brk consumed (o + clenL (ss.take st.index)) ++
            denArms pos brk ee tail (o + clenL (ss.take st.index) + clenL consumed)) ∧
        (InvArms pos f tail (o + clenL (ss.take st.index) + clenL consumed) →
          InvArms pos f (arms ++ tail) (o + clenL (ss.take st.index))) ∧
        clenArms (arms ++ tail) = clenL consumed + clenArms tail
  | [], st, st', arms, _, _, h => by
    simp only [buildArms] at h; cases h
    exact ⟨[], by simp, by simp, fun h => absurd rfl h, fun _ => ⟨rfl, rfl⟩, fun tail _ _ => by simp⟩
  | cb :: cbs, st, st', arms, hsync, hok, h => by
    simp only [buildArms] at h
    split at h
    · cases h
    · cases h
    · rename_i arm st1 h1
      split at h
      · cases h
      · cases h
      · rename_i arms' st2 h2
        cases h
        obtain ⟨c1, body, e1, i1, hifx, hlabx, harm, hcl1, hib, hden1⟩ :=
          buildArm_sem hinv hsync (hok cb (List.mem_cons_self ..)) h1 ee hee
        have hsync1 : st1.rest = ss.drop st1.index := by
          rw [i1]; exact sync_after (by rw [← e1, hsync])
        obtain ⟨c2, e2, i2, hne2, hnil2, htail2⟩ := buildArms_sem hinv hee cbs st1 st' arms' hsync1
          (fun cb' hcb' => hok cb' (List.mem_cons_of_mem _ hcb')) h2
        have htk : ss.take st1.index = ss.take st.index ++ c1 := by
          rw [i1]; exact take_of_drop_append (r := st1.rest) (by rw [← hsync, e1])
        have hoa1 : o + clenL (ss.take st1.index) = o + clenL (ss.take st.index) + clenL c1 := by
          rw [htk, clenL_append, Nat.add_assoc]
        have hc1len : 1 ≤ c1.length := by
          have := (hok cb (List.mem_cons_self ..)).lt; omega
        refine ⟨c1 ++ c2, by rw [e1, e2, List.append_assoc], by rw [i2, i1, List.length_append]; omega,
          fun _ => ⟨by simp only [List.length_append]; omega, by simp⟩,
          fun h => (by cases h), ?_⟩
        intro tail ht0 ht1
        obtain ⟨hd2, hi2, hc2⟩ := htail2 tail ht0 ht1
        -- is this the last block of the chain?
        have hlast : (arms' ++ tail = [] ↔ cb.labelIndex = e) := by
          by_cases hcbs : cbs = []
          · obtain ⟨ha, hc⟩ := hnil2 hcbs
            subst ha; subst hc
            simp only [List.nil_append, List.length_nil, Nat.add_zero] at i2 ⊢
            constructor
            · intro ht; have := ht0 ht; omega
            · intro hl
              cases tail with
              | nil => rfl
              | cons x xs => have := ht1 (by simp); omega
          · obtain ⟨hlen, hne⟩ := hne2 hcbs
            constructor
            · intro ht; exact absurd (List.append_eq_nil_iff.mp ht).1 hne
            · intro hl
              exfalso
              have hle : st'.index ≤ e + 1 := by
                cases tail with
                | nil => have := ht0 rfl; omega
                | cons x xs => have := ht1 (by simp); omega
              omega
        obtain ⟨hjc, hjt⟩ := jtail_jcount_of hlast ee
        have hoff : o + clenL (ss.take st.index) + 1 + clenL body + jcount (arms' ++ tail) =
            o + clenL (ss.take st.index) + clenL c1 := by rw [hjc, hcl1]; omega
        rw [harm]
        refine ⟨fun brk => ?_, fun hit => ?_, ?_⟩
        · simp only [List.cons_append, denArms, flipKw, hoff, hjt]
          rw [denL_append, hden1 brk, ← hoa1, hd2 brk, clenL_append]
          simp only [List.cons_append, List.append_assoc, hoa1, Nat.add_assoc]
        · simp only [List.cons_append, InvArms, hoff]
          refine ⟨hib, ?_⟩
          rw [← hoa1]
          apply hi2
          rw [hoa1]
          simpa [clenL_append, Nat.add_assoc] using hit
        · simp only [List.cons_append, clenArms, hc2, hjc, hcl1, clenL_append]
          omega

/-! ### a whole chain -/

theorem hsync1_of {ss : Block} {st st1 : BuildState} {c1 : List Stmt} (hsync : st.rest = ss.drop st.index)
    (e1 : st.rest = c1 ++ st1.rest) (i1 : st1.index = st.index + c1.length) : st1.rest = ss.drop st1.index := by
  rw [i1]; exact sync_after (by rw [← e1, hsync])

theorem buildChain_sem {pos f} {ss : Block} {o : Nat} {info : ChainInfo} {st st' : BuildState} {node : Stmt}
    (hinv : InvL pos f ss o) (hsync : st.rest = ss.drop st.index)
    (hok : ∀ cb ∈ info.chain, ArmFin ss info.endLabel cb) (h : buildChain info st = .ok (node, st')) :
    ∃ consumed, st.rest = consumed ++ st'.rest ∧ st'.index = st.index + consumed.length ∧
      Res pos f consumed [node] (o + clenL (ss.take st.index)) := by
  -- where the end label stands
  have hee : ∀ dE, labelIndex ss dE = some info.endLabel → pos dE = some (o + clenL (ss.take (info.endLabel + 1))) := by
    intro dE hl
    obtain ⟨dl, hdl⟩ := labelIndex_spec hl
    rw [pos_of_labelIndex hinv hl, clenL_take_succ hdl]
    simp [clenAtom]
  unfold buildChain at h
  split at h
  · cases h
  · cases h
  · rename_i arms st1 h1
    obtain ⟨c1, e1, i1, _, _, htail⟩ := buildArms_sem hinv hee info.chain st st1 arms hsync hok h1
    have htk : ss.take st1.index = ss.take st.index ++ c1 := by
      rw [i1]; exact take_of_drop_append (r := st1.rest) (by rw [← hsync, e1])
    have hoa1 : o + clenL (ss.take st1.index) = o + clenL (ss.take st.index) + clenL c1 := by
      rw [htk, clenL_append, Nat.add_assoc]
    split at h
    · split at h
      · cases h
      · rename_i hidx
        cases h
        have hidx' : st'.index = info.endLabel + 1 := by simpa using hidx
        obtain ⟨hd, hi, hc⟩ := htail [] (fun _ => hidx') (fun hne => absurd rfl hne)
        simp only [List.append_nil, clenArms, Nat.add_zero] at hd hi hc
        have hend : o + clenL (ss.take st.index) + clenArms arms = o + clenL (ss.take (info.endLabel + 1)) := by
          rw [hc, ← hoa1, hidx']
        refine ⟨c1, e1, i1, fun brk => ?_, ?_, ?_⟩
        · simp only [denL_cons, denL_nil, denS_chain, List.append_nil, hend, hd brk]
          simp [denArms]
        · simp only [InvL_cons, InvL_nil, InvS_chain, and_true]
          exact hi (by simp [InvArms])
        · simp [hc]
    · rename_i es hes
      split at h
      · cases h
      · rename_i hidx
        have hidx' : st1.index = es := by simpa using hidx
        dsimp only at h
        split at h
        · cases h
        · rename_i hilen
          split at h
          · cases h
          · rename_i labelStmt rest hdrop
            split at h
            · cases h
            · rename_i hlab
              split at h
              · cases h
              · rename_i hfin
                cases h
                have hlab' : isLabelStmt labelStmt = true := by simpa using hlab
                generalize hlen : info.endLabel - es = len at hdrop hilen hfin
                have hsplit : st1.rest = (st1.rest.take len ++ [labelStmt]) ++ rest := by
                  rw [List.append_assoc, List.singleton_append, ← hdrop, List.take_append_drop]
                have htl : (st1.rest.take len).length = len := by simpa using hilen
                have hle : st1.index ≤ info.endLabel := by
                  have : st1.index + len + 1 = info.endLabel + 1 := by simpa using hfin
                  omega
                have hfin' : st1.index + len + 1 = info.endLabel + 1 := by simpa using hfin
                obtain ⟨hd, hi, hc⟩ := htail [.node .els (st1.rest.take len ++ [labelStmt])]
                  (fun h => by cases h) (fun _ => hle)
                -- the else block, as a part of the block
                have hinve : InvL pos f (st1.rest.take len ++ [labelStmt]) (o + clenL (ss.take st.index) + clenL c1) := by
                  have := inv_drop hinv st1.index
                  rw [← hsync1_of hsync e1 i1, hsplit, InvL_append, hoa1] at this
                  exact this.1
                have htk2 : ss.take (info.endLabel + 1) = ss.take st.index ++ (c1 ++ (st1.rest.take len ++ [labelStmt])) := by
                  have h3 : ss.drop st.index = (c1 ++ (st1.rest.take len ++ [labelStmt])) ++ rest := by
                    rw [← hsync, e1]
                    conv => lhs; rw [hsplit]
                    simp only [List.append_assoc]
                  have := take_of_drop_append h3
                  rw [← this]; congr 1
                  simp only [List.length_append, htl, List.length_cons, List.length_nil]; omega
                have hend : o + clenL (ss.take st.index) + clenArms (arms ++ [.node .els (st1.rest.take len ++ [labelStmt])]) =
                    o + clenL (ss.take (info.endLabel + 1)) := by
                  rw [hc, htk2, clenL_append, clenL_append]
                  simp [clenArms, Nat.add_assoc]
                refine ⟨c1 ++ (st1.rest.take len ++ [labelStmt]), ?_, ?_, fun brk => ?_, ?_, ?_⟩
                · rw [e1, List.append_assoc]; congr 1
                · simp only [i1, List.length_append, htl, List.length_cons, List.length_nil]; omega
                · simp only [denL_cons, denL_nil, denS_chain, List.append_nil, hend, hd brk]
                  simp [denArms, denL_append]
                · simp only [InvL_cons, InvL_nil, InvS_chain, and_true]
                  exact hi (by simp only [InvArms, and_true]; exact hinve)
                · simp [hc, clenArms, clenL_append]

/-! ### the scan of one block -/

theorem chainFrom_sem {pos f} {ss : Block} {o : Nat} {rc : Nat → Nat} {ints : List Nat} (hinv : InvL pos f ss o) :
    ∀ (fuel : Nat) (st : BuildState) (out : List Stmt), st.rest = ss.drop st.index →
    chainFrom ss rc ints fuel st = .ok out → Res pos f st.rest out (o + clenL (ss.take st.index))
  | 0, _, _, _, h => by simp [chainFrom] at h
  | fuel + 1, st, out, hsync, h => by
    have hinvr : InvL pos f st.rest (o + clenL (ss.take st.index)) := by rw [hsync]; exact inv_drop hinv st.index
    unfold chainFrom at h
    split at h
    · split at h
      · split at h
        · cases h
        · rename_i s rest hrest
          split at h
          · rename_i out' hrec
            cases h
            have hsync' : rest = ss.drop (st.index + 1) := by
              have := sync_after (ss := ss) (consumed := [s]) (r := rest) (i := st.index) (by rw [← hsync, hrest]; rfl)
              simpa using this
            have ih := chainFrom_sem hinv fuel ⟨st.index + 1, rest⟩ out' hsync' hrec
            have hs : ss[st.index]? = some s := getElem?_of_drop_eq_cons (by rw [← hsync, hrest])
            rw [hrest] at hinvr ⊢
            rw [InvL_cons] at hinvr
            have h1 : Res pos f [s] [s] (o + clenL (ss.take st.index)) := Res.rfl (by simpa using hinvr.1)
            refine Res.append (xs := [s]) (ys := [s]) h1 ?_
            have : o + clenL (ss.take st.index) + clenL [s] = o + clenL (ss.take (st.index + 1)) := by
              rw [clenL_take_succ hs]; simp [Nat.add_assoc]
            rw [this]; exact ih
          · cases h
          · cases h
      · rename_i info hinfo
        split at h
        · cases h
        · cases h
        · rename_i node st1 hb
          obtain ⟨c1, e1, i1, s1⟩ := buildChain_sem hinv hsync (gatherCondChain_sem hinfo).2 hb
          have hsync1 : st1.rest = ss.drop st1.index := hsync1_of hsync e1 i1
          split at h
          · rename_i out' hrec
            cases h
            have ih := chainFrom_sem hinv fuel st1 out' hsync1 hrec
            have htk : ss.take st1.index = ss.take st.index ++ c1 := by
              rw [i1]; exact take_of_drop_append (r := st1.rest) (by rw [← hsync, e1])
            rw [e1]
            refine Res.append s1 ?_
            rw [htk, clenL_append, ← Nat.add_assoc] at ih
            exact ih
          · cases h
          · cases h
    · rename_i hge
      cases h
      have : st.rest = [] := by rw [hsync]; apply List.drop_eq_nil_of_le; omega
      rw [this]; exact Res.rfl (by simp)

/-- a block of nested blocks only: no chain starts anywhere -/
theorem chainFrom_nodes {ss : Block} {rc : Nat → Nat} {ints : List Nat} (hn : ∀ s ∈ ss, ∃ k b, s = Stmt.node k b) :
    ∀ (fuel : Nat) (st : BuildState) (out : List Stmt), st.rest = ss.drop st.index →
    chainFrom ss rc ints fuel st = .ok out → out = st.rest
  | 0, _, _, _, h => by simp [chainFrom] at h
  | fuel + 1, st, out, hsync, h => by
    unfold chainFrom at h
    split at h
    · rename_i hlt
      have hj : jmpAt ss rc st.index = none := by
        unfold jmpAt
        rw [List.getElem?_eq_getElem hlt]
        obtain ⟨k, b, hkb⟩ := hn _ (List.getElem_mem hlt)
        simp only [hkb, jmpInfo]
      rw [gatherCondChain_none_of_not_jump hj] at h
      dsimp only at h
      split at h
      · cases h
      · rename_i s rest hrest
        split at h
        · rename_i out' hrec
          cases h
          have hsync' : rest = ss.drop (st.index + 1) := by
            have := sync_after (ss := ss) (consumed := [s]) (r := rest) (i := st.index) (by rw [← hsync, hrest]; rfl)
            simpa using this
          rw [chainFrom_nodes hn fuel ⟨st.index + 1, rest⟩ out' hsync' hrec, hrest]
        · cases h
        · cases h
    · rename_i hge
      cases h
      rw [hsync]; symm; apply List.drop_eq_nil_of_le; omega

/-! ### descending into nested blocks -/

structure ResArms (pos : Nat → Option Nat) (f : Nat → Nat) (xs ys : List Stmt) (o : Nat) : Prop where
  den : ∀ brk e, denArms pos brk e ys o = denArms pos brk e xs o
  inv : InvArms pos f ys o
  clen : clenArms ys = clenArms xs

theorem invArms_nodes {pos f} : ∀ (arms : List Stmt) (o : Nat), InvArms pos f arms o → ∀ s ∈ arms, ∃ k b, s = Stmt.node k b
  | [], _, _, s, hs => by simp at hs
  | .atom d a :: rest, o, h, _, _ => by simp [InvArms] at h
  | .node k b :: rest, o, h, s, hs => by
    rcases List.mem_cons.mp hs with rfl | hs'
    · exact ⟨k, b, rfl⟩
    · cases k with
      | arm kw c => simp only [InvArms] at h; exact invArms_nodes rest _ h.2 s hs'
      | els => simp only [InvArms] at h; exact invArms_nodes rest _ h.2 s hs'
      | loop id => simp [InvArms] at h
      | doWhile id c => simp [InvArms] at h
      | chain => simp [InvArms] at h

theorem descendWith_jcount {g : Block → Outcome Block} {ss out : List Stmt} (h : descendWith g ss = .ok out) :
    jcount out = jcount ss ∧ ∀ e, jtail e out = jtail e ss := by
  cases ss with
  | nil => simp only [descendWith] at h; cases h; exact ⟨rfl, fun _ => rfl⟩
  | cons s rest =>
    cases s with
    | atom d a =>
      simp only [descendWith] at h
      split at h
      · cases h; exact ⟨rfl, fun _ => rfl⟩
      · cases h
      · cases h
    | node k b =>
      simp only [descendWith] at h
      split at h
      · cases h
      · cases h
      · split at h
        · cases h; exact ⟨rfl, fun _ => rfl⟩
        · cases h
        · cases h

theorem descendArms_sem {pos f} {g : Block → Outcome Block}
    (hg : ∀ b b' o, g b = .ok b' → InvL pos f b o → Res pos f b b' o) :
    ∀ (arms arms' : List Stmt) (o : Nat), descendWith g arms = .ok arms' → InvArms pos f arms o → ResArms pos f arms arms' o
  | [], arms', o, h, _ => by
    simp only [descendWith] at h; cases h
    exact ⟨fun _ _ => rfl, by simp [InvArms], rfl⟩
  | .atom d a :: rest, _, _, _, hi => by simp [InvArms] at hi
  | .node k body :: rest, arms', o, h, hi => by
    simp only [descendWith] at h
    split at h
    · cases h
    · cases h
    · rename_i body' hb
      split at h
      · rename_i rest' hrec
        cases h
        obtain ⟨hj1, hj2⟩ := descendWith_jcount hrec
        cases k with
        | arm kw c =>
          simp only [InvArms] at hi
          have r1 := hg _ _ _ hb hi.1
          have r2 := descendArms_sem hg rest rest' _ hrec hi.2
          refine ⟨fun brk e => ?_, ?_, ?_⟩
          · simp only [denArms, r1.clen, hj1, hj2, r1.den, r2.den]
          · simp only [InvArms, r1.clen, hj1]; exact ⟨r1.inv, r2.inv⟩
          · simp only [clenArms, r1.clen, hj1, r2.clen]
        | els =>
          simp only [InvArms] at hi
          have r1 := hg _ _ _ hb hi.1
          have r2 := descendArms_sem hg rest rest' _ hrec hi.2
          refine ⟨fun brk e => ?_, ?_, ?_⟩
          · simp only [denArms, r1.clen, r1.den, r2.den]
          · simp only [InvArms, r1.clen]; exact ⟨r1.inv, r2.inv⟩
          · simp only [clenArms, r1.clen, r2.clen]
        | loop id => simp [InvArms] at hi
        | doWhile id c => simp [InvArms] at hi
        | chain => simp [InvArms] at hi
      · cases h
      · cases h

theorem descendWith_sem {pos f} {g : Block → Outcome Block}
    (hg : ∀ b b' o, g b = .ok b' → InvL pos f b o → Res pos f b b' o)
    (hga : ∀ b b' o, g b = .ok b' → InvArms pos f b o → ResArms pos f b b' o) :
    ∀ (ss out : List Stmt) (o : Nat), descendWith g ss = .ok out → InvL pos f ss o → Res pos f ss out o
  | [], out, o, h, _ => by simp only [descendWith] at h; cases h; exact Res.rfl (by simp)
  | .atom d a :: rest, out, o, h, hi => by
    simp only [descendWith] at h
    rw [InvL_cons] at hi
    split at h
    · rename_i out' hrec
      cases h
      have ih := descendWith_sem hg hga rest out' _ hrec hi.2
      exact Res.append (xs := [.atom d a]) (ys := [.atom d a]) (Res.rfl (by simpa using hi.1)) (by simpa using ih)
    · cases h
    · cases h
  | .node k body :: rest, out, o, h, hi => by
    simp only [descendWith] at h
    rw [InvL_cons] at hi
    split at h
    · cases h
    · cases h
    · rename_i body' hb
      split at h
      · rename_i out' hrec
        cases h
        have ih := descendWith_sem hg hga rest out' _ hrec hi.2
        have hnode : Res pos f [.node k body] [.node k body'] o := by
          cases k with
          | loop id =>
            have hi1 := hi.1; simp only [InvS_loop] at hi1
            have r := hg _ _ _ hb hi1.2
            exact ⟨fun brk => by simp only [denL_cons, denL_nil, denS_loop, r.clen, r.den],
              by simp only [InvL_cons, InvL_nil, InvS_loop, r.clen, and_true]; exact ⟨hi1.1, r.inv⟩,
              by simp only [clenL_cons, clenS_loop, r.clen]⟩
          | doWhile id c =>
            have hi1 := hi.1; simp only [InvS_doWhile] at hi1
            have r := hg _ _ _ hb hi1.2
            exact ⟨fun brk => by simp only [denL_cons, denL_nil, denS_doWhile, r.clen, r.den],
              by simp only [InvL_cons, InvL_nil, InvS_doWhile, r.clen, and_true]; exact ⟨hi1.1, r.inv⟩,
              by simp only [clenL_cons, clenS_doWhile, r.clen]⟩
          | chain =>
            have hi1 := hi.1; simp only [InvS_chain] at hi1
            have r := hga _ _ _ hb hi1
            exact ⟨fun brk => by simp only [denL_cons, denL_nil, denS_chain, r.clen, r.den],
              by simp only [InvL_cons, InvL_nil, InvS_chain, and_true]; exact r.inv,
              by simp only [clenL_cons, clenS_chain, r.clen]⟩
          | arm kw c =>
            have hi1 := hi.1; simp only [InvS_arm] at hi1
            have r := hg _ _ _ hb hi1
            exact ⟨fun brk => by simp only [denL_cons, denL_nil, denS_arm, r.den],
              by simp only [InvL_cons, InvL_nil, InvS_arm, and_true]; exact r.inv,
              by simp only [clenL_cons, clenS_arm, r.clen]⟩
          | els =>
            have hi1 := hi.1; simp only [InvS_els] at hi1
            have r := hg _ _ _ hb hi1
            exact ⟨fun brk => by simp only [denL_cons, denL_nil, denS_els, r.den],
              by simp only [InvL_cons, InvL_nil, InvS_els, and_true]; exact r.inv,
              by simp only [clenL_cons, clenS_els, r.clen]⟩
        exact Res.append hnode (by simpa using ih)
      · cases h
      · cases h

/-! ### the pass -/

theorem ifElseBlock_sem_aux {pos f} {rc : Nat → Nat} : ∀ (n fuel : Nat), fuel ≤ n → ∀ (ss out : Block) (o : Nat),
    ifElseBlock rc fuel ss = .ok out → InvL pos f ss o → Res pos f ss out o
  | _, 0, _, _, _, _, h, _ => by simp [ifElseBlock] at h
  | 0, fuel + 1, hle, _, _, _, _, _ => by omega
  | n + 1, fuel + 1, hle, ss, out, o, h, hi => by
    have ih : ∀ m, m ≤ n → ∀ (b b' : Block) (o' : Nat), ifElseBlock rc m b = .ok b' → InvL pos f b o' → Res pos f b b' o' :=
      fun m hm => ifElseBlock_sem_aux n m hm
    simp only [ifElseBlock] at h
    split at h
    · cases h
    · cases h
    · rename_i new hnew
      have h1 : Res pos f ss new o := by
        have := chainFrom_sem hi _ ⟨0, ss⟩ new (by simp) hnew
        simpa using this
      refine h1.trans (descendWith_sem (g := ifElseBlock rc fuel) (ih fuel (by omega)) ?_ new out o h h1.inv)
      -- the children of a chain: nothing to rewrite at their level, descend into each
      intro arms arms' o' ha hia
      cases fuel with
      | zero => simp [ifElseBlock] at ha
      | succ fuel' =>
        simp only [ifElseBlock] at ha
        split at ha
        · cases ha
        · cases ha
        · rename_i new' hnew'
          have := chainFrom_nodes (invArms_nodes arms o' hia) _ ⟨0, arms⟩ new' (by simp) hnew'
          simp only at this
          subst this
          exact descendArms_sem (ih fuel' (by omega)) _ _ _ ha hia

/-- `decompile_if_else` preserves the resolved code, at every depth -/
theorem decompileIfElse_sem {pos f} {a b : Block} (h : decompileIfElse a = .ok b) (hi : InvL pos f a 0) :
    (∀ brk, denL pos brk b 0 = denL pos brk a 0) ∧ InvL pos f b 0 := by
  unfold decompileIfElse at h
  have := ifElseBlock_sem_aux _ _ (Nat.le_refl _) a b 0 h hi
  exact ⟨this.den, this.inv⟩

end TruthModel.Decomp
