import TruthModel.Lemmas.LowerJumps
/-
The SHAPE of the code `Model/LowerJumps.lean` emits, for every expression, condition, intrinsic table and fuel
(no evaluation involved, so also for code that is never executed):

* the temp counter and the label counter never decrease;
* the labels a fragment defines are pairwise different and lie between the label counter before and after;
* every label carries the time `t` of its statement;
* a jump with an explicit time goes to the target of the statement (and carries the statement's time); jumps to the
  compiler's own skip / false / end labels carry none.

Used by the whole-body simulation (`Lemmas/BodySim.lean`): these facts make the fragment of a statement
"hygienic" inside the whole stream and keep the script time constant inside the fragment.
-/
namespace TruthModel.Lower
open TruthModel TruthModel.Regs

/-- times of the labels a fragment defines -/
def labelTimes : List JStmt → List Int
  | [] => []
  | .label t _ :: rest => t :: labelTimes rest
  | _ :: rest => labelTimes rest

/-- jumps that carry an explicit time: (target, time) -/
def timedJumps : List JStmt → List (Nat × Int)
  | [] => []
  | .jmp _ l (some x) :: rest => (l, x) :: timedJumps rest
  | .condJmp _ _ _ _ _ l (some x) :: rest => (l, x) :: timedJumps rest
  | .cmpJmp _ _ l (some x) :: rest => (l, x) :: timedJumps rest
  | .countJmp _ _ _ l (some x) :: rest => (l, x) :: timedJumps rest
  | _ :: rest => timedJumps rest

theorem labelTimes_append : ∀ (a b : List JStmt), labelTimes (a ++ b) = labelTimes a ++ labelTimes b
  | [], _ => rfl
  | s :: a, b => by cases s <;> simp [labelTimes, labelTimes_append a b]

theorem timedJumps_append : ∀ (a b : List JStmt), timedJumps (a ++ b) = timedJumps a ++ timedJumps b
  | [], _ => rfl
  | s :: a, b => by
    have ih := timedJumps_append a b
    cases s with
    | base _ => simp [timedJumps, ih]
    | label _ _ => simp [timedJumps, ih]
    | cmp _ _ _ _ => simp [timedJumps, ih]
    | jmp _ _ tm => cases tm <;> simp [timedJumps, ih]
    | condJmp _ _ _ _ _ _ tm => cases tm <;> simp [timedJumps, ih]
    | cmpJmp _ _ _ tm => cases tm <;> simp [timedJumps, ih]
    | countJmp _ _ _ _ tm => cases tm <;> simp [timedJumps, ih]

theorem labelTimes_lift : ∀ c : List LStmt, labelTimes (liftCode c) = []
  | [] => rfl
  | _ :: c => by have := labelTimes_lift c; simpa [liftCode, labelTimes] using this

theorem timedJumps_lift : ∀ c : List LStmt, timedJumps (liftCode c) = []
  | [] => rfl
  | _ :: c => by have := timedJumps_lift c; simpa [liftCode, timedJumps] using this

/-- the shape of a fragment emitted at time `t` for a statement that jumps to `tgt`, between the label counters
`lg` and `lg'` -/
structure Shape (t : Int) (tgt : Goto) (lg lg' : Nat) (code : List JStmt) : Prop where
  range : ∀ l ∈ labelsOf code, lg ≤ l ∧ l < lg'
  nodup : (labelsOf code).Nodup
  times : ∀ x ∈ labelTimes code, x = t
  jumps : ∀ p ∈ timedJumps code, p.1 = tgt.l ∧ tgt.time = some p.2

/-- a target without time: the fragment has no jump with an explicit time at all -/
def noTgt : Goto := ⟨0, none⟩

theorem Shape.retarget {t : Int} {l0 : Nat} {tgt : Goto} {lg lg' : Nat} {code : List JStmt}
    (h : Shape t ⟨l0, none⟩ lg lg' code) : Shape t tgt lg lg' code :=
  ⟨h.range, h.nodup, h.times, fun p hp => by have := (h.jumps p hp).2; simp at this⟩

theorem Shape.noTimed {t : Int} {l0 : Nat} {lg lg' : Nat} {code : List JStmt}
    (h : Shape t ⟨l0, none⟩ lg lg' code) : timedJumps code = [] := by
  cases hc : timedJumps code with
  | nil => rfl
  | cons p ps => have := (h.jumps p (by rw [hc]; simp)).2; simp at this

theorem Shape.mono {t : Int} {tgt : Goto} {a b a' b' : Nat} {code : List JStmt} (h : Shape t tgt a b code)
    (ha : a' ≤ a) (hb : b ≤ b') : Shape t tgt a' b' code :=
  ⟨fun l hl => by have := h.range l hl; omega, h.nodup, h.times, h.jumps⟩

theorem Shape.nil (t : Int) (tgt : Goto) (lg : Nat) : Shape t tgt lg lg [] :=
  ⟨by simp [labelsOf], by simp [labelsOf], by simp [labelTimes], by simp [timedJumps]⟩

theorem Shape.lift (t : Int) (tgt : Goto) (lg : Nat) (c : List LStmt) : Shape t tgt lg lg (liftCode c) :=
  ⟨by simp [labelsOf_lift], by simp [labelsOf_lift], by simp [labelTimes_lift], by simp [timedJumps_lift]⟩

theorem Shape.frees (t : Int) (tgt : Goto) (lg : Nat) (o : Option Def) : Shape t tgt lg lg (freeOfJ o) :=
  Shape.lift t tgt lg _

theorem Shape.label (t : Int) (tgt : Goto) (l : Nat) : Shape t tgt l (l + 1) [.label t l] :=
  ⟨by simp [labelsOf], by simp [labelsOf], by simp [labelTimes], by simp [timedJumps]⟩

/-- two fragments whose label ranges do not overlap -/
theorem Shape.append {t : Int} {tgt : Goto} {a1 a2 b1 b2 lo hi : Nat} {a b : List JStmt}
    (ha : Shape t tgt a1 a2 a) (hb : Shape t tgt b1 b2 b) (hd : a2 ≤ b1 ∨ b2 ≤ a1)
    (h1 : lo ≤ a1) (h2 : lo ≤ b1) (h3 : a2 ≤ hi) (h4 : b2 ≤ hi) : Shape t tgt lo hi (a ++ b) where
  range := by
    intro l hl
    rw [labelsOf_append, List.mem_append] at hl
    rcases hl with hl | hl
    · have := ha.range l hl; omega
    · have := hb.range l hl; omega
  nodup := by
    rw [labelsOf_append, List.nodup_append]
    refine ⟨ha.nodup, hb.nodup, ?_⟩
    intro x hx y hy hxy
    have := ha.range x hx
    have := hb.range y hy
    omega
  times := by
    intro x hx
    rw [labelTimes_append, List.mem_append] at hx
    rcases hx with hx | hx
    · exact ha.times x hx
    · exact hb.times x hx
  jumps := by
    intro p hp
    rw [timedJumps_append, List.mem_append] at hp
    rcases hp with hp | hp
    · exact ha.jumps p hp
    · exact hb.jumps p hp

/-- two fragments that define different labels -/
theorem Shape.append' {t : Int} {tgt : Goto} {a1 a2 b1 b2 lo hi : Nat} {a b : List JStmt}
    (ha : Shape t tgt a1 a2 a) (hb : Shape t tgt b1 b2 b) (hd : ∀ x ∈ labelsOf a, ∀ y ∈ labelsOf b, x ≠ y)
    (h1 : lo ≤ a1) (h2 : lo ≤ b1) (h3 : a2 ≤ hi) (h4 : b2 ≤ hi) : Shape t tgt lo hi (a ++ b) where
  range := by
    intro l hl
    rw [labelsOf_append, List.mem_append] at hl
    rcases hl with hl | hl
    · have := ha.range l hl; omega
    · have := hb.range l hl; omega
  nodup := by
    rw [labelsOf_append, List.nodup_append]
    exact ⟨ha.nodup, hb.nodup, hd⟩
  times := by
    intro x hx
    rw [labelTimes_append, List.mem_append] at hx
    rcases hx with hx | hx
    · exact ha.times x hx
    · exact hb.times x hx
  jumps := by
    intro p hp
    rw [timedJumps_append, List.mem_append] at hp
    rcases hp with hp | hp
    · exact ha.jumps p hp
    · exact hb.jumps p hp

/-- consecutive label ranges -/
theorem Shape.seq {t : Int} {tgt : Goto} {l0 l1 l2 : Nat} {a b : List JStmt}
    (ha : Shape t tgt l0 l1 a) (hb : Shape t tgt l1 l2 b) (h1 : l0 ≤ l1) (h2 : l1 ≤ l2) : Shape t tgt l0 l2 (a ++ b) :=
  Shape.append ha hb (Or.inl (Nat.le_refl _)) (Nat.le_refl _) h1 h2 (Nat.le_refl _)

/-- code without labels in front of / behind a fragment -/
theorem Shape.seqL {t : Int} {tgt : Goto} {l0 l1 : Nat} {a b : List JStmt}
    (ha : Shape t tgt l0 l0 a) (hb : Shape t tgt l0 l1 b) (h : l0 ≤ l1) : Shape t tgt l0 l1 (a ++ b) :=
  Shape.seq ha hb (Nat.le_refl _) h

theorem Shape.seqR {t : Int} {tgt : Goto} {l0 l1 : Nat} {a b : List JStmt}
    (ha : Shape t tgt l0 l1 a) (hb : Shape t tgt l1 l1 b) (h : l0 ≤ l1) : Shape t tgt l0 l1 (a ++ b) :=
  Shape.seq ha hb h (Nat.le_refl _)

theorem Shape.cons_base {t : Int} {tgt : Goto} {l0 l1 : Nat} {b : List JStmt} (s : LStmt)
    (hb : Shape t tgt l0 l1 b) : Shape t tgt l0 l1 (.base s :: b) :=
  ⟨by simpa [labelsOf] using hb.range, by simpa [labelsOf] using hb.nodup, by simpa [labelTimes] using hb.times,
   by simpa [timedJumps] using hb.jumps⟩

/-! ### the primitives -/

theorem shape_lowerJmp {I : JIntrinsics} {mask : Nat} {tgt : Goto} {j : List JStmt} (t : Int) (lg : Nat)
    (h : lowerJmp I mask tgt = .ok j) : Shape t tgt lg lg j := by
  unfold lowerJmp at h
  cases hj : I.jmp with
  | none => simp [hj] at h
  | some _ =>
    simp only [hj, Outcome.ok.injEq] at h
    subst h
    refine ⟨by simp [labelsOf], by simp [labelsOf], by simp [labelTimes], ?_⟩
    cases htm : tgt.time <;> simp [timedJumps]

theorem shape_condJmpAtom {I : JIntrinsics} {mask : Nat} {kw : Kw} {op : BinOp} {tyA tyB : RTy} {a b : Arg} {tgt : Goto}
    {c : List JStmt} (t : Int) (lg : Nat) (h : condJmpAtom I mask kw op tyA tyB a b tgt = .ok c) : Shape t tgt lg lg c := by
  have key : ∀ op' : BinOp, (if tyA ≠ tyB then (Outcome.panic "assertion failed: should've been type-checked" : Outcome (List JStmt)) else
      match I.condAlt op' tyA with
      | none => .err errUnsupported
      | some .intrinsic => .ok [.condJmp mask op' tyA a b tgt.l tgt.time]
      | some .twoPart => .ok [.cmp mask tyA a b, .cmpJmp mask op' tgt.l tgt.time]) = .ok c → Shape t tgt lg lg c := by
    intro op' h
    split at h
    · cases h
    · cases halt : I.condAlt op' tyA with
      | none => simp [halt] at h
      | some alt =>
        cases alt with
        | intrinsic =>
          simp only [halt, Outcome.ok.injEq] at h
          subst h
          refine ⟨by simp [labelsOf], by simp [labelsOf], by simp [labelTimes], ?_⟩
          cases htm : tgt.time <;> simp [timedJumps]
        | twoPart =>
          simp only [halt, Outcome.ok.injEq] at h
          subst h
          refine ⟨by simp [labelsOf], by simp [labelsOf], by simp [labelTimes], ?_⟩
          cases htm : tgt.time <;> simp [timedJumps]
  unfold condJmpAtom at h
  cases kw with
  | kif => exact key op h
  | kunless =>
    cases hn : negateCmp op with
    | none => simp [hn] at h
    | some op' => simp only [hn] at h; exact key op' h

theorem shape_liftAtom {r : Outcome (List LStmt)} {g lg : Nat} {code : List JStmt} {g' lg' : Nat} (t : Int) (tgt : Goto)
    (h : liftAtom r g lg = .ok (code, g', lg')) : g = g' ∧ lg = lg' ∧ Shape t tgt lg lg' code := by
  cases r with
  | ok c =>
    simp only [liftAtom, Outcome.ok.injEq, Prod.mk.injEq] at h
    obtain ⟨rfl, rfl, rfl⟩ := h
    exact ⟨rfl, rfl, Shape.lift t tgt lg c⟩
  | err x => simp [liftAtom] at h
  | panic x => simp [liftAtom] at h

theorem shape_lowerCountJmp {I : JIntrinsics} {lg : Nat} {t : Int} {mask : Nat} {kw : Kw} {v : VarRef} {k : CountKind}
    {tgt : Goto} {code : List JStmt} {lg' : Nat} (h : lowerCountJmp I lg t mask kw v k tgt = .ok (code, lg')) :
    lg ≤ lg' ∧ Shape t tgt lg lg' code := by
  unfold lowerCountJmp at h
  cases hk : I.countJmp k with
  | none => simp [hk] at h
  | some _ =>
    simp only [hk] at h
    split at h
    · cases h
    · cases kw with
      | kif =>
        simp only [Outcome.ok.injEq, Prod.mk.injEq] at h
        obtain ⟨rfl, rfl⟩ := h
        refine ⟨Nat.le_refl _, by simp [labelsOf], by simp [labelsOf], by simp [labelTimes], ?_⟩
        cases htm : tgt.time <;> simp [timedJumps]
      | kunless =>
        simp only [] at h
        cases hj : lowerJmp I mask tgt with
        | err x => simp [hj] at h
        | panic x => simp [hj] at h
        | ok j =>
          simp only [hj, Outcome.ok.injEq, Prod.mk.injEq] at h
          obtain ⟨rfl, rfl⟩ := h
          have hcj : Shape t tgt lg lg [JStmt.countJmp mask k v.lowered lg none] :=
            ⟨by simp [labelsOf], by simp [labelsOf], by simp [labelTimes], by simp [timedJumps]⟩
          have := Shape.seqL hcj (Shape.seqL (shape_lowerJmp t lg hj) (Shape.label t tgt lg) (Nat.le_succ _)) (Nat.le_succ _)
          exact ⟨Nat.le_succ _, by simpa using this⟩

/-! ### the ten mutually recursive functions -/

/-- what is proved by induction on the fuel -/
def ShapeAt (I : JIntrinsics) (db ab fuel : Nat) : Prop :=
  (∀ g lg t mask v e code g' lg', lowerSetJ I db ab fuel g lg t mask v e = .ok (code, g', lg') →
    g ≤ g' ∧ lg ≤ lg' ∧ Shape t noTgt lg lg' code) ∧
  (∀ g lg t mask v ty guard e O, lowerOperandJ I db ab fuel g lg t mask v ty guard e = .ok O →
    g ≤ O.gen ∧ lg ≤ O.lgen ∧ Shape t noTgt lg O.lgen O.code) ∧
  (∀ g lg t mask v op a b code g' lg', lowerBinopJ I db ab fuel g lg t mask v op a b = .ok (code, g', lg') →
    g ≤ g' ∧ lg ≤ lg' ∧ Shape t noTgt lg lg' code) ∧
  (∀ g lg t mask v op b code g' lg', lowerUnopJ I db ab fuel g lg t mask v op b = .ok (code, g', lg') →
    g ≤ g' ∧ lg ≤ lg' ∧ Shape t noTgt lg lg' code) ∧
  (∀ g lg t mask v cs code g' lg', lowerSwitchJ I db ab fuel g lg t mask v cs = .ok (code, g', lg') →
    g ≤ g' ∧ lg ≤ lg' ∧ Shape t noTgt lg lg' code) ∧
  (∀ g lg t mask v c l r code g' lg', lowerTernaryJ I db ab fuel g lg t mask v c l r = .ok (code, g', lg') →
    g ≤ g' ∧ lg ≤ lg' ∧ Shape t noTgt lg lg' code) ∧
  (∀ g lg t mask kw e tgt code g' lg', lowerCondJ I db ab fuel g lg t mask kw e tgt = .ok (code, g', lg') →
    g ≤ g' ∧ lg ≤ lg' ∧ Shape t tgt lg lg' code) ∧
  (∀ g lg t mask e O, lowerTempJ I db ab fuel g lg t mask e = .ok O →
    g ≤ O.gen ∧ lg ≤ O.lgen ∧ Shape t noTgt lg O.lgen O.code) ∧
  (∀ g lg t mask kw a op b tgt code g' lg', lowerCmpJ I db ab fuel g lg t mask kw a op b tgt = .ok (code, g', lg') →
    g ≤ g' ∧ lg ≤ lg' ∧ Shape t tgt lg lg' code) ∧
  (∀ g lg t mask kw a op b tgt code g' lg', lowerLogicJ I db ab fuel g lg t mask kw a op b tgt = .ok (code, g', lg') →
    g ≤ g' ∧ lg ≤ lg' ∧ Shape t tgt lg lg' code)

theorem shapeAt_zero (I : JIntrinsics) (db ab : Nat) : ShapeAt I db ab 0 := by
  refine ⟨?_, ?_, ?_, ?_, ?_, ?_, ?_, ?_, ?_, ?_⟩
  · intro _ _ _ _ _ _ _ _ _ h; simp [lowerSetJ] at h
  · intro _ _ _ _ _ _ _ _ _ h; simp [lowerOperandJ] at h
  · intro _ _ _ _ _ _ _ _ _ _ _ h; simp [lowerBinopJ] at h
  · intro _ _ _ _ _ _ _ _ _ _ h; simp [lowerUnopJ] at h
  · intro _ _ _ _ _ _ _ _ _ h; simp [lowerSwitchJ] at h
  · intro _ _ _ _ _ _ _ _ _ _ _ h; simp [lowerTernaryJ] at h
  · intro _ _ _ _ _ _ _ _ _ _ h; simp [lowerCondJ] at h
  · intro _ _ _ _ _ _ h; simp [lowerTempJ] at h
  · intro _ _ _ _ _ _ _ _ _ _ _ _ h; simp [lowerCmpJ] at h
  · intro _ _ _ _ _ _ _ _ _ _ _ _ h; simp [lowerLogicJ] at h

section step
variable {I : JIntrinsics} {db ab fuel : Nat} (ih : ShapeAt I db ab fuel)
include ih

theorem shape_set {g lg : Nat} {t : Int} {mask : Nat} {v : VarRef} {e : SExpr} {code : List JStmt} {g' lg' : Nat}
    (h : lowerSetJ I db ab (fuel + 1) g lg t mask v e = .ok (code, g', lg')) :
    g ≤ g' ∧ lg ≤ lg' ∧ Shape t noTgt lg lg' code := by
  simp only [lowerSetJ] at h
  cases hsim : e.simple? with
  | some a =>
    simp only [hsim] at h
    obtain ⟨rfl, rfl, hs⟩ := shape_liftAtom t noTgt h
    exact ⟨Nat.le_refl _, Nat.le_refl _, hs⟩
  | none =>
    simp only [hsim] at h
    split at h
    · cases h1 : lowerSetJ I db ab fuel (g + 1) lg t mask (tmpVar g e.temp.tmpTy) e.temp.tmpExpr with
      | err x => simp [h1] at h
      | panic x => simp [h1] at h
      | ok r =>
        obtain ⟨c1, g1, lg1⟩ := r
        simp only [h1] at h
        cases h2 : lowerAssignAtom I.base mask v .set (.loc g e.temp.readTy) with
        | err x => simp [h2] at h
        | panic x => simp [h2] at h
        | ok c2 =>
          simp only [h2, Outcome.ok.injEq, Prod.mk.injEq] at h
          obtain ⟨rfl, rfl, rfl⟩ := h
          obtain ⟨hg, hl, hs⟩ := ih.1 _ _ _ _ _ _ _ _ _ h1
          refine ⟨Nat.le_of_succ_le hg, hl, ?_⟩
          have := Shape.seqR (Shape.seqR hs (Shape.lift t noTgt lg1 c2) hl) (Shape.lift t noTgt lg1 [.free g]) hl
          exact Shape.cons_base _ (by simpa [liftCode] using this)
    · split at h
      · exact ih.2.2.1 _ _ _ _ _ _ _ _ _ _ _ h
      · exact ih.2.2.2.1 _ _ _ _ _ _ _ _ _ _ h
      · exact ih.2.2.2.2.1 _ _ _ _ _ _ _ _ _ h
      · exact ih.2.2.2.2.2.1 _ _ _ _ _ _ _ _ _ _ _ h
      · cases h

theorem shape_operand {g lg : Nat} {t : Int} {mask : Nat} {v : VarRef} {ty : RTy} {guard : Bool} {e : SExpr} {O : OperandJ}
    (h : lowerOperandJ I db ab (fuel + 1) g lg t mask v ty guard e = .ok O) :
    g ≤ O.gen ∧ lg ≤ O.lgen ∧ Shape t noTgt lg O.lgen O.code := by
  simp only [lowerOperandJ] at h
  cases hsim : e.simple? with
  | some a =>
    simp only [hsim, Outcome.ok.injEq] at h
    subst h
    exact ⟨Nat.le_refl _, Nat.le_refl _, Shape.nil t noTgt lg⟩
  | none =>
    simp only [hsim] at h
    split at h
    · cases h1 : lowerSetJ I db ab fuel g lg t mask v e.temp.tmpExpr with
      | err x => simp [h1] at h
      | panic x => simp [h1] at h
      | ok r =>
        obtain ⟨c1, g1, lg1⟩ := r
        simp only [h1, Outcome.ok.injEq] at h
        subst h
        exact ih.1 _ _ _ _ _ _ _ _ _ h1
    · cases h1 : lowerSetJ I db ab fuel (g + 1) lg t mask (tmpVar g e.temp.tmpTy) e.temp.tmpExpr with
      | err x => simp [h1] at h
      | panic x => simp [h1] at h
      | ok r =>
        obtain ⟨c1, g1, lg1⟩ := r
        simp only [h1, Outcome.ok.injEq] at h
        subst h
        obtain ⟨hg, hl, hs⟩ := ih.1 _ _ _ _ _ _ _ _ _ h1
        exact ⟨Nat.le_of_succ_le hg, hl, Shape.cons_base _ hs⟩

theorem shape_binop {g lg : Nat} {t : Int} {mask : Nat} {v : VarRef} {op : BinOp} {a b : SExpr} {code : List JStmt} {g' lg' : Nat}
    (h : lowerBinopJ I db ab (fuel + 1) g lg t mask v op a b = .ok (code, g', lg')) :
    g ≤ g' ∧ lg ≤ lg' ∧ Shape t noTgt lg lg' code := by
  simp only [lowerBinopJ] at h
  cases hA : lowerOperandJ I db ab fuel g lg t mask v (binopTy op a.ty) (!b.uses v.name) a with
  | err x => simp [hA] at h
  | panic x => simp [hA] at h
  | ok A =>
    simp only [hA] at h
    cases hB : lowerOperandJ I db ab fuel A.gen A.lgen t mask v (binopTy op a.ty) (!operandUses a v.name A.free) b with
    | err x => simp [hB] at h
    | panic x => simp [hB] at h
    | ok B =>
      simp only [hB] at h
      cases hC : lowerBinopAtom I.base mask v op A.ty A.atom B.atom with
      | err x => simp [hC] at h
      | panic x => simp [hC] at h
      | ok c =>
        simp only [hC, Outcome.ok.injEq, Prod.mk.injEq] at h
        obtain ⟨rfl, rfl, rfl⟩ := h
        obtain ⟨hg1, hl1, hs1⟩ := ih.2.1 _ _ _ _ _ _ _ _ _ hA
        obtain ⟨hg2, hl2, hs2⟩ := ih.2.1 _ _ _ _ _ _ _ _ _ hB
        refine ⟨Nat.le_trans hg1 hg2, Nat.le_trans hl1 hl2, ?_⟩
        exact Shape.seq hs1 (Shape.seqR hs2 (Shape.seqL (Shape.lift t noTgt _ c)
          (Shape.seqL (Shape.frees t noTgt _ B.free) (Shape.frees t noTgt _ A.free) (Nat.le_refl _)) (Nat.le_refl _)) hl2) hl1 hl2

theorem shape_unop {g lg : Nat} {t : Int} {mask : Nat} {v : VarRef} {op : UnOp} {b : SExpr} {code : List JStmt} {g' lg' : Nat}
    (h : lowerUnopJ I db ab (fuel + 1) g lg t mask v op b = .ok (code, g', lg')) :
    g ≤ g' ∧ lg ≤ lg' ∧ Shape t noTgt lg lg' code := by
  simp only [lowerUnopJ] at h
  cases hB : lowerOperandJ I db ab fuel g lg t mask v (unopTy op b.ty) true b with
  | err x => simp [hB] at h
  | panic x => simp [hB] at h
  | ok B =>
    simp only [hB] at h
    cases hC : lowerUnopAtom I.base mask v op B.ty B.atom with
    | err x => simp [hC] at h
    | panic x => simp [hC] at h
    | ok c =>
      simp only [hC, Outcome.ok.injEq, Prod.mk.injEq] at h
      obtain ⟨rfl, rfl, rfl⟩ := h
      obtain ⟨hg1, hl1, hs1⟩ := ih.2.1 _ _ _ _ _ _ _ _ _ hB
      exact ⟨hg1, hl1, Shape.seqR hs1 (Shape.seqL (Shape.lift t noTgt _ c) (Shape.frees t noTgt _ B.free) (Nat.le_refl _)) hl1⟩

theorem shape_switch {g lg : Nat} {t : Int} {mask : Nat} {v : VarRef} {cs : List (Nat × SExpr)} {code : List JStmt} {g' lg' : Nat}
    (h : lowerSwitchJ I db ab (fuel + 1) g lg t mask v cs = .ok (code, g', lg')) :
    g ≤ g' ∧ lg ≤ lg' ∧ Shape t noTgt lg lg' code := by
  cases cs with
  | nil =>
    simp only [lowerSwitchJ, Outcome.ok.injEq, Prod.mk.injEq] at h
    obtain ⟨rfl, rfl, rfl⟩ := h
    exact ⟨Nat.le_refl _, Nat.le_refl _, Shape.nil t noTgt lg⟩
  | cons hd rest =>
    obtain ⟨caseMask, c⟩ := hd
    simp only [lowerSwitchJ] at h
    split at h
    · rename_i c1 g1 lg1 hfirst
      have h1 : g ≤ g1 ∧ lg ≤ lg1 ∧ Shape t noTgt lg lg1 c1 := by
        split at hfirst
        · simp only [Outcome.ok.injEq, Prod.mk.injEq] at hfirst
          obtain ⟨rfl, rfl, rfl⟩ := hfirst
          exact ⟨Nat.le_refl _, Nat.le_refl _, Shape.nil t noTgt lg⟩
        · exact ih.1 _ _ _ _ _ _ _ _ _ hfirst
      cases h2 : lowerSwitchJ I db ab fuel g1 lg1 t mask v rest with
      | err x => simp [h2] at h
      | panic x => simp [h2] at h
      | ok r =>
        obtain ⟨c2, g2, lg2⟩ := r
        simp only [h2, Outcome.ok.injEq, Prod.mk.injEq] at h
        obtain ⟨rfl, rfl, rfl⟩ := h
        obtain ⟨hg2, hl2, hs2⟩ := ih.2.2.2.2.1 _ _ _ _ _ _ _ _ _ h2
        exact ⟨Nat.le_trans h1.1 hg2, Nat.le_trans h1.2.1 hl2, Shape.seq h1.2.2 hs2 h1.2.1 hl2⟩
    · cases h
    · cases h

theorem shape_ternary {g lg : Nat} {t : Int} {mask : Nat} {v : VarRef} {c l r : SExpr} {code : List JStmt} {g' lg' : Nat}
    (h : lowerTernaryJ I db ab (fuel + 1) g lg t mask v c l r = .ok (code, g', lg')) :
    g ≤ g' ∧ lg ≤ lg' ∧ Shape t noTgt lg lg' code := by
  simp only [lowerTernaryJ] at h
  cases h1 : lowerCondJ I db ab fuel g (lg + 2) t mask .kunless c ⟨lg, none⟩ with
  | err x => simp [h1] at h
  | panic x => simp [h1] at h
  | ok r1 =>
    obtain ⟨c1, g1, lg1⟩ := r1
    simp only [h1] at h
    cases h2 : lowerSetJ I db ab fuel g1 lg1 t mask v l with
    | err x => simp [h2] at h
    | panic x => simp [h2] at h
    | ok r2 =>
      obtain ⟨c2, g2, lg2⟩ := r2
      simp only [h2] at h
      cases hj : lowerJmp I mask ⟨lg + 1, none⟩ with
      | err x => simp [hj] at h
      | panic x => simp [hj] at h
      | ok j =>
        simp only [hj] at h
        cases h3 : lowerSetJ I db ab fuel g2 lg2 t mask v r with
        | err x => simp [h3] at h
        | panic x => simp [h3] at h
        | ok r3 =>
          obtain ⟨c3, g3, lg3⟩ := r3
          simp only [h3, Outcome.ok.injEq, Prod.mk.injEq] at h
          obtain ⟨rfl, rfl, rfl⟩ := h
          obtain ⟨hg1, hl1, hs1⟩ := ih.2.2.2.2.2.2.1 _ _ _ _ _ _ _ _ _ _ h1
          obtain ⟨hg2, hl2, hs2⟩ := ih.1 _ _ _ _ _ _ _ _ _ h2
          obtain ⟨hg3, hl3, hs3⟩ := ih.1 _ _ _ _ _ _ _ _ _ h3
          have hs1' : Shape t noTgt (lg + 2) lg1 c1 := hs1.retarget
          have hj' : Shape t noTgt lg2 lg2 j := (shape_lowerJmp t lg2 hj).retarget
          refine ⟨Nat.le_trans hg1 (Nat.le_trans hg2 hg3), by omega, ?_⟩
          -- c1 ++ c2 ++ j : labels in [lg+2, lg2); then the own label lg, c3 in [lg2, lg3), the own label lg+1
          have hX : Shape t noTgt (lg + 2) lg2 (c1 ++ (c2 ++ j)) := Shape.seq hs1' (Shape.seqR hs2 hj' hl2) hl1 hl2
          have hZW : Shape t noTgt (lg + 1) lg3 (c3 ++ [JStmt.label t (lg + 1)]) :=
            Shape.append hs3 (Shape.label t noTgt (lg + 1)) (Or.inr (by omega)) (by omega) (Nat.le_refl _) (Nat.le_refl _) (by omega)
          have hT : Shape t noTgt lg lg3 ([JStmt.label t lg] ++ (c3 ++ [JStmt.label t (lg + 1)])) :=
            Shape.append (Shape.label t noTgt lg) hZW (Or.inl (Nat.le_refl _)) (Nat.le_refl _) (Nat.le_succ _) (by omega) (Nat.le_refl _)
          have hd : ∀ x ∈ labelsOf (c1 ++ (c2 ++ j)), ∀ y ∈ labelsOf ([JStmt.label t lg] ++ (c3 ++ [JStmt.label t (lg + 1)])), x ≠ y := by
            intro x hx y hy
            have hxr := hX.range x hx
            simp only [labelsOf_append, labelsOf, List.mem_append, List.mem_cons, List.not_mem_nil, or_false] at hy
            rcases hy with rfl | hy | rfl
            · omega
            · have := hs3.range y hy; omega
            · omega
          have := Shape.append' hX hT hd (by omega) (Nat.le_refl _) (by omega) (Nat.le_refl _)
          simpa [List.append_assoc] using this

theorem shape_temp {g lg : Nat} {t : Int} {mask : Nat} {e : SExpr} {O : OperandJ}
    (h : lowerTempJ I db ab (fuel + 1) g lg t mask e = .ok O) :
    g ≤ O.gen ∧ lg ≤ O.lgen ∧ Shape t noTgt lg O.lgen O.code := by
  simp only [lowerTempJ] at h
  cases hsim : e.simple? with
  | some a =>
    simp only [hsim, Outcome.ok.injEq] at h
    subst h
    exact ⟨Nat.le_refl _, Nat.le_refl _, Shape.nil t noTgt lg⟩
  | none =>
    simp only [hsim] at h
    cases h1 : lowerSetJ I db ab fuel (g + 1) lg t mask (tmpVar g e.temp.tmpTy) e.temp.tmpExpr with
    | err x => simp [h1] at h
    | panic x => simp [h1] at h
    | ok r =>
      obtain ⟨c1, g1, lg1⟩ := r
      simp only [h1, Outcome.ok.injEq] at h
      subst h
      obtain ⟨hg, hl, hs⟩ := ih.1 _ _ _ _ _ _ _ _ _ h1
      exact ⟨Nat.le_of_succ_le hg, hl, Shape.cons_base _ hs⟩

theorem shape_cmp {g lg : Nat} {t : Int} {mask : Nat} {kw : Kw} {a : SExpr} {op : BinOp} {b : SExpr} {tgt : Goto}
    {code : List JStmt} {g' lg' : Nat}
    (h : lowerCmpJ I db ab (fuel + 1) g lg t mask kw a op b tgt = .ok (code, g', lg')) :
    g ≤ g' ∧ lg ≤ lg' ∧ Shape t tgt lg lg' code := by
  simp only [lowerCmpJ] at h
  cases hA : lowerTempJ I db ab fuel g lg t mask a with
  | err x => simp [hA] at h
  | panic x => simp [hA] at h
  | ok A =>
    simp only [hA] at h
    cases hB : lowerTempJ I db ab fuel A.gen A.lgen t mask b with
    | err x => simp [hB] at h
    | panic x => simp [hB] at h
    | ok B =>
      simp only [hB] at h
      cases hC : condJmpAtom I mask kw op A.ty B.ty A.atom B.atom tgt with
      | err x => simp [hC] at h
      | panic x => simp [hC] at h
      | ok c =>
        simp only [hC, Outcome.ok.injEq, Prod.mk.injEq] at h
        obtain ⟨rfl, rfl, rfl⟩ := h
        obtain ⟨hg1, hl1, hs1⟩ := ih.2.2.2.2.2.2.2.1 _ _ _ _ _ _ hA
        obtain ⟨hg2, hl2, hs2⟩ := ih.2.2.2.2.2.2.2.1 _ _ _ _ _ _ hB
        refine ⟨Nat.le_trans hg1 hg2, Nat.le_trans hl1 hl2, ?_⟩
        exact Shape.seq hs1.retarget (Shape.seqR hs2.retarget (Shape.seqL (shape_condJmpAtom t _ hC)
          (Shape.seqL (Shape.frees t tgt _ B.free) (Shape.frees t tgt _ A.free) (Nat.le_refl _)) (Nat.le_refl _)) hl2) hl1 hl2

theorem shape_logic {g lg : Nat} {t : Int} {mask : Nat} {kw : Kw} {a : SExpr} {op : BinOp} {b : SExpr} {tgt : Goto}
    {code : List JStmt} {g' lg' : Nat}
    (h : lowerLogicJ I db ab (fuel + 1) g lg t mask kw a op b tgt = .ok (code, g', lg')) :
    g ≤ g' ∧ lg ≤ lg' ∧ Shape t tgt lg lg' code := by
  simp only [lowerLogicJ] at h
  split at h
  · cases h1 : lowerCondJ I db ab fuel g lg t mask kw a tgt with
    | err x => simp [h1] at h
    | panic x => simp [h1] at h
    | ok r1 =>
      obtain ⟨c1, g1, lg1⟩ := r1
      simp only [h1] at h
      cases h2 : lowerCondJ I db ab fuel g1 lg1 t mask kw b tgt with
      | err x => simp [h2] at h
      | panic x => simp [h2] at h
      | ok r2 =>
        obtain ⟨c2, g2, lg2⟩ := r2
        simp only [h2, Outcome.ok.injEq, Prod.mk.injEq] at h
        obtain ⟨rfl, rfl, rfl⟩ := h
        obtain ⟨hg1, hl1, hs1⟩ := ih.2.2.2.2.2.2.1 _ _ _ _ _ _ _ _ _ _ h1
        obtain ⟨hg2, hl2, hs2⟩ := ih.2.2.2.2.2.2.1 _ _ _ _ _ _ _ _ _ _ h2
        exact ⟨Nat.le_trans hg1 hg2, Nat.le_trans hl1 hl2, Shape.seq hs1 hs2 hl1 hl2⟩
  · cases h1 : lowerCondJ I db ab fuel g (lg + 1) t mask kw.negate a ⟨lg, none⟩ with
    | err x => simp [h1] at h
    | panic x => simp [h1] at h
    | ok r1 =>
      obtain ⟨c1, g1, lg1⟩ := r1
      simp only [h1] at h
      cases h2 : lowerCondJ I db ab fuel g1 lg1 t mask kw.negate b ⟨lg, none⟩ with
      | err x => simp [h2] at h
      | panic x => simp [h2] at h
      | ok r2 =>
        obtain ⟨c2, g2, lg2⟩ := r2
        simp only [h2] at h
        cases hj : lowerJmp I mask tgt with
        | err x => simp [hj] at h
        | panic x => simp [hj] at h
        | ok j =>
          simp only [hj, Outcome.ok.injEq, Prod.mk.injEq] at h
          obtain ⟨rfl, rfl, rfl⟩ := h
          obtain ⟨hg1, hl1, hs1⟩ := ih.2.2.2.2.2.2.1 _ _ _ _ _ _ _ _ _ _ h1
          obtain ⟨hg2, hl2, hs2⟩ := ih.2.2.2.2.2.2.1 _ _ _ _ _ _ _ _ _ _ h2
          refine ⟨Nat.le_trans hg1 hg2, by omega, ?_⟩
          have hbody : Shape t tgt (lg + 1) lg2 (c1 ++ (c2 ++ j)) :=
            Shape.seq hs1.retarget (Shape.seqR hs2.retarget (shape_lowerJmp t lg2 hj) hl2) hl1 hl2
          have := Shape.append hbody (Shape.label t tgt lg) (Or.inr (Nat.le_refl _)) (Nat.le_succ _) (Nat.le_refl _)
            (Nat.le_refl _) (by omega)
          simpa [List.append_assoc] using this

theorem shape_cond {g lg : Nat} {t : Int} {mask : Nat} {kw : Kw} {e : SExpr} {tgt : Goto} {code : List JStmt} {g' lg' : Nat}
    (h : lowerCondJ I db ab (fuel + 1) g lg t mask kw e tgt = .ok (code, g', lg')) :
    g ≤ g' ∧ lg ≤ lg' ∧ Shape t tgt lg lg' code := by
  have hcmp := ih.2.2.2.2.2.2.2.2.1
  have fallback : ∀ e' : SExpr, (if e'.ty ≠ .int then (Outcome.panic "assertion failed: ty == ScalarType::Int" : Outcome (List JStmt × Gen × Nat))
      else lowerCmpJ I db ab fuel g lg t mask kw e' .ne (.litI 0) tgt) = .ok (code, g', lg') →
      g ≤ g' ∧ lg ≤ lg' ∧ Shape t tgt lg lg' code := by
    intro e' h
    split at h
    · cases h
    · exact hcmp _ _ _ _ _ _ _ _ _ _ _ _ h
  cases e with
  | binop op a b =>
    simp only [lowerCondJ] at h
    split at h
    · exact hcmp _ _ _ _ _ _ _ _ _ _ _ _ h
    · split at h
      · exact ih.2.2.2.2.2.2.2.2.2 _ _ _ _ _ _ _ _ _ _ _ _ h
      · exact fallback _ h
  | unop op b =>
    cases op with
    | not => simp only [lowerCondJ] at h; exact ih.2.2.2.2.2.2.1 _ _ _ _ _ _ _ _ _ _ h
    | _ => simp only [lowerCondJ] at h; exact fallback _ h
  | _ => simp only [lowerCondJ] at h; exact fallback _ h

end step

theorem shapeAt (I : JIntrinsics) (db ab : Nat) : ∀ fuel, ShapeAt I db ab fuel
  | 0 => shapeAt_zero I db ab
  | fuel + 1 => by
    have ih := shapeAt I db ab fuel
    exact ⟨fun _ _ _ _ _ _ _ _ _ h => shape_set ih h, fun _ _ _ _ _ _ _ _ _ h => shape_operand ih h,
      fun _ _ _ _ _ _ _ _ _ _ _ h => shape_binop ih h, fun _ _ _ _ _ _ _ _ _ _ h => shape_unop ih h,
      fun _ _ _ _ _ _ _ _ _ h => shape_switch ih h, fun _ _ _ _ _ _ _ _ _ _ _ h => shape_ternary ih h,
      fun _ _ _ _ _ _ _ _ _ _ h => shape_cond ih h, fun _ _ _ _ _ _ h => shape_temp ih h,
      fun _ _ _ _ _ _ _ _ _ _ _ _ h => shape_cmp ih h, fun _ _ _ _ _ _ _ _ _ _ _ _ h => shape_logic ih h⟩

/-! ### statements -/

/-- the label a source statement defines itself -/
def ownLabel : JSStmt → List Nat
  | .label l => [l]
  | _ => []

/-- the target of a jump statement -/
def stmtTarget : JSStmt → Goto
  | .goto g => g
  | .condGoto _ _ g => g
  | _ => noTgt

/-- what the fragment of one source statement looks like: its labels are its own label (a `label` statement) or
lie between the label counters; label times are the statement's time; explicit jump times go to its target -/
structure StmtShape (t : Int) (st : JSStmt) (lg lg' : Nat) (code : List JStmt) : Prop where
  range : ∀ l ∈ labelsOf code, l ∈ ownLabel st ∨ (lg ≤ l ∧ l < lg')
  own : ∀ l ∈ ownLabel st, code = [.label t l]
  nodup : (labelsOf code).Nodup
  times : ∀ x ∈ labelTimes code, x = t
  jumps : ∀ p ∈ timedJumps code, p.1 = (stmtTarget st).l ∧ (stmtTarget st).time = some p.2

theorem StmtShape.ofShape {t : Int} {st : JSStmt} {lg lg' : Nat} {code : List JStmt} (hown : ownLabel st = [])
    (h : Shape t (stmtTarget st) lg lg' code) : StmtShape t st lg lg' code :=
  ⟨fun l hl => Or.inr (h.range l hl), by simp [hown], h.nodup, h.times, h.jumps⟩

theorem shape_lowerAssignJ {I : JIntrinsics} {db ab g lg : Nat} {t : Int} {mask : Nat} {v : VarRef} {op : AssignOp} {e : SExpr}
    {code : List JStmt} {g' lg' : Nat} (h : lowerAssignJ I db ab g lg t mask v op e = .ok (code, g', lg')) :
    g ≤ g' ∧ lg ≤ lg' ∧ Shape t noTgt lg lg' code := by
  unfold lowerAssignJ at h
  have key : ∀ (hne : op ≠ .set), (match e.simple? with
      | some a => liftAtom (lowerAssignAtom I.base mask v op a) g lg
      | none =>
        match lowerSetJ I db ab (jumpFuel e) (g + 1) lg t mask (tmpVar g e.temp.tmpTy) e.temp.tmpExpr with
        | .ok (c1, g1, lg1) =>
          match lowerAssignAtom I.base mask v op (.loc g e.temp.readTy) with
          | .ok c2 => .ok (.base (.alloc g e.temp.tmpTy) :: c1 ++ liftCode c2 ++ [.base (.free g)], g1, lg1)
          | .err x => .err x
          | .panic x => .panic x
        | .err x => .err x
        | .panic x => .panic x) = Outcome.ok (code, g', lg') → g ≤ g' ∧ lg ≤ lg' ∧ Shape t noTgt lg lg' code := by
    intro _ h
    cases hsim : e.simple? with
    | some a =>
      simp only [hsim] at h
      obtain ⟨rfl, rfl, hs⟩ := shape_liftAtom t noTgt h
      exact ⟨Nat.le_refl _, Nat.le_refl _, hs⟩
    | none =>
      simp only [hsim] at h
      cases h1 : lowerSetJ I db ab (jumpFuel e) (g + 1) lg t mask (tmpVar g e.temp.tmpTy) e.temp.tmpExpr with
      | err x => simp [h1] at h
      | panic x => simp [h1] at h
      | ok r =>
        obtain ⟨c1, g1, lg1⟩ := r
        simp only [h1] at h
        cases h2 : lowerAssignAtom I.base mask v op (.loc g e.temp.readTy) with
        | err x => simp [h2] at h
        | panic x => simp [h2] at h
        | ok c2 =>
          simp only [h2, Outcome.ok.injEq, Prod.mk.injEq] at h
          obtain ⟨rfl, rfl, rfl⟩ := h
          obtain ⟨hg, hl, hs⟩ := (shapeAt I db ab _).1 _ _ _ _ _ _ _ _ _ h1
          refine ⟨Nat.le_of_succ_le hg, hl, ?_⟩
          have := Shape.seqR (Shape.seqR hs (Shape.lift t noTgt lg1 c2) hl) (Shape.lift t noTgt lg1 [.free g]) hl
          exact Shape.cons_base _ (by simpa [liftCode] using this)
  cases op with
  | set => exact (shapeAt I db ab _).1 _ _ _ _ _ _ _ _ _ h
  | _ => exact key (by simp) h

theorem shape_lowerArgsJ {I : JIntrinsics} {db ab : Nat} {t : Int} {mask : Nat} : ∀ {es : List SExpr} {g lg : Nat}
    {c : List JStmt} {as : List Arg} {ds : List Def} {g' lg' : Nat},
    lowerArgsJ I db ab t mask g lg es = .ok (c, as, ds, g', lg') → g ≤ g' ∧ lg ≤ lg' ∧ Shape t noTgt lg lg' c
  | [], g, lg, c, as, ds, g', lg', h => by
    simp only [lowerArgsJ, Outcome.ok.injEq, Prod.mk.injEq] at h
    obtain ⟨rfl, _, _, rfl, rfl⟩ := h
    exact ⟨Nat.le_refl _, Nat.le_refl _, Shape.nil t noTgt lg⟩
  | e :: es, g, lg, c, as, ds, g', lg', h => by
    simp only [lowerArgsJ] at h
    cases hsim : e.simple? with
    | some a =>
      simp only [hsim] at h
      cases hr : lowerArgsJ I db ab t mask g lg es with
      | err x => simp [hr] at h
      | panic x => simp [hr] at h
      | ok r =>
        obtain ⟨c', as', ds', g1, lg1⟩ := r
        simp only [hr, Outcome.ok.injEq, Prod.mk.injEq] at h
        obtain ⟨rfl, _, _, rfl, rfl⟩ := h
        exact shape_lowerArgsJ hr
    | none =>
      simp only [hsim] at h
      cases h1 : lowerSetJ I db ab (jumpFuel e) (g + 1) lg t mask (tmpVar g e.temp.tmpTy) e.temp.tmpExpr with
      | err x => simp [h1] at h
      | panic x => simp [h1] at h
      | ok r1 =>
        obtain ⟨c1, g1, lg1⟩ := r1
        simp only [h1] at h
        cases hr : lowerArgsJ I db ab t mask g1 lg1 es with
        | err x => simp [hr] at h
        | panic x => simp [hr] at h
        | ok r =>
          obtain ⟨c', as', ds', g2, lg2⟩ := r
          simp only [hr, Outcome.ok.injEq, Prod.mk.injEq] at h
          obtain ⟨rfl, _, _, rfl, rfl⟩ := h
          obtain ⟨hg, hl, hs⟩ := (shapeAt I db ab _).1 _ _ _ _ _ _ _ _ _ h1
          obtain ⟨hg2, hl2, hs2⟩ := shape_lowerArgsJ hr
          exact ⟨Nat.le_trans (Nat.le_of_succ_le hg) hg2, Nat.le_trans hl hl2, Shape.cons_base _ (Shape.seq hs hs2 hl hl2)⟩

/-- **shape_lowerStmtJ**: the fragment of every source statement, whatever its expressions are -/
theorem shape_lowerStmtJ {I : JIntrinsics} {db ab g lg : Nat} {t : Int} {mask : Nat} {st : JSStmt} {code : List JStmt}
    {g' lg' : Nat} (h : lowerStmtJ I db ab g lg t mask st = .ok (code, g', lg')) :
    g ≤ g' ∧ lg ≤ lg' ∧ StmtShape t st lg lg' code := by
  cases st with
  | base s =>
    cases s with
    | decl d ty init =>
      cases init with
      | none =>
        simp only [lowerStmtJ, Outcome.ok.injEq, Prod.mk.injEq] at h
        obtain ⟨rfl, rfl, rfl⟩ := h
        exact ⟨Nat.le_refl _, Nat.le_refl _, StmtShape.ofShape rfl (Shape.lift t _ lg [.alloc d ty])⟩
      | some e =>
        simp only [lowerStmtJ] at h
        cases h1 : lowerAssignJ I db ab g lg t mask ⟨.loc d, none, ty⟩ .set e with
        | err x => simp [h1] at h
        | panic x => simp [h1] at h
        | ok r =>
          obtain ⟨c, g1, lg1⟩ := r
          simp only [h1, Outcome.ok.injEq, Prod.mk.injEq] at h
          obtain ⟨rfl, rfl, rfl⟩ := h
          obtain ⟨hg, hl, hs⟩ := shape_lowerAssignJ h1
          exact ⟨hg, hl, StmtShape.ofShape rfl (Shape.cons_base _ hs)⟩
    | assign op v e =>
      simp only [lowerStmtJ] at h
      obtain ⟨hg, hl, hs⟩ := shape_lowerAssignJ h
      exact ⟨hg, hl, StmtShape.ofShape rfl hs⟩
    | call opcode args =>
      simp only [lowerStmtJ, lowerCallJ] at h
      cases h1 : lowerArgsJ I db ab t mask g lg args with
      | err x => simp [h1] at h
      | panic x => simp [h1] at h
      | ok r =>
        obtain ⟨c, as, ds, g1, lg1⟩ := r
        simp only [h1, Outcome.ok.injEq, Prod.mk.injEq] at h
        obtain ⟨rfl, rfl, rfl⟩ := h
        obtain ⟨hg, hl, hs⟩ := shape_lowerArgsJ h1
        refine ⟨hg, hl, StmtShape.ofShape rfl ?_⟩
        show Shape t noTgt lg lg1 _
        have := Shape.seqR (Shape.seqR hs (Shape.lift t noTgt lg1 [.instr ⟨mask, .plain opcode, as⟩]) hl)
          (Shape.lift t noTgt lg1 (ds.reverse.map .free)) hl
        simpa [liftCode] using this
    | scopeEnd d =>
      simp only [lowerStmtJ, Outcome.ok.injEq, Prod.mk.injEq] at h
      obtain ⟨rfl, rfl, rfl⟩ := h
      exact ⟨Nat.le_refl _, Nat.le_refl _, StmtShape.ofShape rfl (Shape.lift t _ lg [.free d])⟩
    | other => simp [lowerStmtJ] at h
  | label l =>
    simp only [lowerStmtJ, Outcome.ok.injEq, Prod.mk.injEq] at h
    obtain ⟨rfl, rfl, rfl⟩ := h
    exact ⟨Nat.le_refl _, Nat.le_refl _, by simp [labelsOf, ownLabel], by simp [ownLabel], by simp [labelsOf],
      by simp [labelTimes], by simp [timedJumps]⟩
  | goto tgt =>
    simp only [lowerStmtJ] at h
    cases hj : lowerJmp I mask tgt with
    | err x => simp [hj] at h
    | panic x => simp [hj] at h
    | ok j =>
      simp only [hj, Outcome.ok.injEq, Prod.mk.injEq] at h
      obtain ⟨rfl, rfl, rfl⟩ := h
      exact ⟨Nat.le_refl _, Nat.le_refl _, StmtShape.ofShape rfl (shape_lowerJmp t lg hj)⟩
  | condGoto kw c tgt =>
    simp only [lowerStmtJ, lowerCondGoto] at h
    cases c with
    | predec v k =>
      simp only [] at h
      cases h1 : lowerCountJmp I lg t mask kw v k tgt with
      | err x => simp [h1] at h
      | panic x => simp [h1] at h
      | ok r =>
        obtain ⟨c, lg1⟩ := r
        simp only [h1, Outcome.ok.injEq, Prod.mk.injEq] at h
        obtain ⟨rfl, rfl, rfl⟩ := h
        obtain ⟨hl, hs⟩ := shape_lowerCountJmp h1
        exact ⟨Nat.le_refl _, hl, StmtShape.ofShape rfl hs⟩
    | expr e =>
      simp only [] at h
      obtain ⟨hg, hl, hs⟩ := (shapeAt I db ab _).2.2.2.2.2.2.1 _ _ _ _ _ _ _ _ _ _ h
      exact ⟨hg, hl, StmtShape.ofShape rfl hs⟩
  | wait n =>
    simp only [lowerStmtJ, Outcome.ok.injEq, Prod.mk.injEq] at h
    obtain ⟨rfl, rfl, rfl⟩ := h
    exact ⟨Nat.le_refl _, Nat.le_refl _, StmtShape.ofShape rfl (Shape.nil t _ lg)⟩

end TruthModel.Lower
