/-
C07, semantic half: `decompile_break` and `unused_labels::run` preserve the resolved code.
A `goto d` inside loop `c` becomes `break` only when `d` stands directly behind a loop with id `c`;
every loop with id `c` ends at code index `f c` (`InvS`), so `d` and the end of the enclosing loop
are the same code index.
-/
import TruthModel.Lemmas.DecompDen
namespace TruthModel.Decomp
open List

/-! ### `decompile_break` keeps shapes -/

theorem convAtom_clen (m cur) (a : Atom) : clenAtom (convAtom m cur a) = clenAtom a := by
  cases a <;> rfl

theorem breakL_length (m cur) : ∀ ss : List Stmt, (breakL m cur ss).length = ss.length
  | [] => by simp [breakL]
  | s :: ss => by simp [breakL, breakL_length m cur ss]

theorem jcount_breakL (m cur) (ss : List Stmt) : jcount (breakL m cur ss) = jcount ss := by
  cases ss <;> simp [breakL]

theorem jtail_breakL (e m cur) (ss : List Stmt) : jtail e (breakL m cur ss) = jtail e ss := by
  cases ss <;> simp [breakL]

@[simp] theorem breakS_atom (m cur d a) : breakS m cur (.atom d a) = .atom d (convAtom m cur a) := by simp [breakS]
@[simp] theorem breakS_loop (m cur id b) : breakS m cur (.node (.loop id) b) = .node (.loop id) (breakL m (some id) b) := by
  simp [breakS, Kind.loopId]
@[simp] theorem breakS_doWhile (m cur id c b) :
    breakS m cur (.node (.doWhile id c) b) = .node (.doWhile id c) (breakL m (some id) b) := by
  simp [breakS, Kind.loopId]
@[simp] theorem breakS_chain (m cur b) : breakS m cur (.node .chain b) = .node .chain (breakL m cur b) := by
  simp [breakS, Kind.loopId]
@[simp] theorem breakS_arm (m cur kw c b) : breakS m cur (.node (.arm kw c) b) = .node (.arm kw c) (breakL m cur b) := by
  simp [breakS, Kind.loopId]
@[simp] theorem breakS_els (m cur b) : breakS m cur (.node .els b) = .node .els (breakL m cur b) := by
  simp [breakS, Kind.loopId]
@[simp] theorem breakL_nil (m cur) : breakL m cur [] = [] := by simp [breakL]
@[simp] theorem breakL_cons (m cur s ss) : breakL m cur (s :: ss) = breakS m cur s :: breakL m cur ss := by simp [breakL]

mutual
theorem breakS_clen (m) : ∀ (cur : Option Nat) (s : Stmt), clenS (breakS m cur s) = clenS s
  | cur, .atom d a => by simp [convAtom_clen]
  | cur, .node k b => by
    cases k with
    | loop id => simp [breakL_clen m _ b]
    | doWhile id c => simp [breakL_clen m _ b]
    | chain => simp [breakArms_clen m cur b]
    | arm kw c => simp [breakL_clen m cur b]
    | els => simp [breakL_clen m cur b]
theorem breakL_clen (m) : ∀ (cur : Option Nat) (ss : List Stmt), clenL (breakL m cur ss) = clenL ss
  | cur, [] => by simp
  | cur, s :: ss => by simp [breakS_clen m cur s, breakL_clen m cur ss]
theorem breakArms_clen (m) : ∀ (cur : Option Nat) (ss : List Stmt), clenArms (breakL m cur ss) = clenArms ss
  | cur, [] => by simp [clenArms]
  | cur, .atom d a :: rest => by simp [clenArms, convAtom_clen, breakArms_clen m cur rest]
  | cur, .node k b :: rest => by
    cases k with
    | arm kw c => simp [clenArms, breakL_clen m cur b, breakArms_clen m cur rest, jcount_breakL]
    | loop id => simp [clenArms, breakL_clen m _ b, breakArms_clen m cur rest]
    | doWhile id c => simp [clenArms, breakL_clen m _ b, breakArms_clen m cur rest]
    | chain => simp [clenArms, breakL_clen m cur b, breakArms_clen m cur rest]
    | els => simp [clenArms, breakL_clen m cur b, breakArms_clen m cur rest]
end

mutual
theorem breakS_inv (pos f m) : ∀ (cur : Option Nat) (s : Stmt) (o : Nat), InvS pos f s o → InvS pos f (breakS m cur s) o
  | cur, .atom d a, o, h => by
    cases a <;> simpa [convAtom] using h
  | cur, .node k b, o, h => by
    cases k with
    | loop id => simp only [breakS_loop, InvS_loop, breakL_clen] at h ⊢; exact ⟨h.1, breakL_inv pos f m _ b o h.2⟩
    | doWhile id c => simp only [breakS_doWhile, InvS_doWhile, breakL_clen] at h ⊢; exact ⟨h.1, breakL_inv pos f m _ b o h.2⟩
    | chain => simp only [breakS_chain, InvS_chain] at h ⊢; exact breakArms_inv pos f m cur b o h
    | arm kw c => simp only [breakS_arm, InvS_arm] at h ⊢; exact breakL_inv pos f m cur b o h
    | els => simp only [breakS_els, InvS_els] at h ⊢; exact breakL_inv pos f m cur b o h
theorem breakL_inv (pos f m) : ∀ (cur : Option Nat) (ss : List Stmt) (o : Nat), InvL pos f ss o → InvL pos f (breakL m cur ss) o
  | cur, [], o, _ => by simp
  | cur, s :: ss, o, h => by
    simp only [breakL_cons, InvL_cons, breakS_clen] at h ⊢
    exact ⟨breakS_inv pos f m cur s o h.1, breakL_inv pos f m cur ss _ h.2⟩
theorem breakArms_inv (pos f m) : ∀ (cur : Option Nat) (ss : List Stmt) (o : Nat), InvArms pos f ss o →
    InvArms pos f (breakL m cur ss) o
  | cur, [], o, _ => by simp [InvArms]
  | cur, .atom d a :: rest, o, h => by simp [InvArms] at h
  | cur, .node k b :: rest, o, h => by
    cases k with
    | arm kw c =>
      simp only [breakL_cons, breakS_arm, InvArms, breakL_clen, jcount_breakL] at h ⊢
      exact ⟨breakL_inv pos f m cur b _ h.1, breakArms_inv pos f m cur rest _ h.2⟩
    | els =>
      simp only [breakL_cons, breakS_els, InvArms, breakL_clen] at h ⊢
      exact ⟨breakL_inv pos f m cur b _ h.1, breakArms_inv pos f m cur rest _ h.2⟩
    | loop id => simp [InvArms] at h
    | doWhile id c => simp [InvArms] at h
    | chain => simp [InvArms] at h
end

/-! ### `decompile_break` preserves the resolved code -/

/-- the map of loop-end labels is right: a label listed for loop `c` stands at the end of loop `c` -/
def BrkOK (pos : Nat → Option Nat) (f : Nat → Nat) (m : List (Nat × Nat)) : Prop :=
  ∀ d c, lookupLast m d = some c → pos d = some (f c + 1)

/-- the current loop and the code index `break` goes to belong together -/
def CurOK (f : Nat → Nat) (cur brk : Option Nat) : Prop := ∀ c, cur = some c → brk = some (f c + 1)

theorem convJump_den {pos f m} (hm : BrkOK pos f m) {cur brk} (hc : CurOK f cur brk) (j : Jump) :
    denJ pos brk (convJump m cur j) = denJ pos brk j := by
  unfold convJump
  split
  · rename_i d
    split
    · rename_i c
      split
      · rename_i e he
        split
        · rename_i hce
          have hce' : c = e := by simpa using hce
          subst hce'
          simp only [denJ, rj, hm d c he, hc c rfl, brkJ]
        · rfl
      · rfl
    · rfl
  · rfl

theorem convAtom_den {pos f m} (hm : BrkOK pos f m) {cur brk} (hc : CurOK f cur brk) (d : Option String) (a : Atom) :
    denAtom pos brk d (convAtom m cur a) = denAtom pos brk d a := by
  cases a with
  | jump j => simp only [convAtom, denAtom, convJump_den hm hc]
  | condJump kw c j => simp only [convAtom, denAtom, convJump_den hm hc]
  | _ => rfl

theorem curOK_none (f : Nat → Nat) (brk : Option Nat) : CurOK f none brk := by intro c h; cases h

mutual
theorem breakS_den {pos f m} (hm : BrkOK pos f m) : ∀ (cur brk : Option Nat) (s : Stmt) (o : Nat), CurOK f cur brk →
    InvS pos f s o → denS pos brk (breakS m cur s) o = denS pos brk s o
  | cur, brk, .atom d a, o, hc, _ => by simp only [breakS_atom, denS_atom]; exact convAtom_den hm hc d a
  | cur, brk, .node k b, o, hc, h => by
    cases k with
    | loop id =>
      simp only [InvS_loop] at h
      simp only [breakS_loop, denS_loop, breakL_clen]
      rw [breakL_den hm (some id) _ b o (by intro c hc'; cases hc'; rw [h.1]) h.2]
    | doWhile id c =>
      simp only [InvS_doWhile] at h
      simp only [breakS_doWhile, denS_doWhile, breakL_clen]
      rw [breakL_den hm (some id) _ b o (by intro c hc'; cases hc'; rw [h.1]) h.2]
    | chain =>
      simp only [InvS_chain] at h
      simp only [breakS_chain, denS_chain, breakArms_clen]
      exact breakArms_den hm cur brk _ b o hc h
    | arm kw c => simp only [InvS_arm] at h; simp only [breakS_arm, denS_arm]; exact breakL_den hm cur brk b o hc h
    | els => simp only [InvS_els] at h; simp only [breakS_els, denS_els]; exact breakL_den hm cur brk b o hc h
theorem breakL_den {pos f m} (hm : BrkOK pos f m) : ∀ (cur brk : Option Nat) (ss : List Stmt) (o : Nat), CurOK f cur brk →
    InvL pos f ss o → denL pos brk (breakL m cur ss) o = denL pos brk ss o
  | cur, brk, [], o, _, _ => by simp
  | cur, brk, s :: ss, o, hc, h => by
    simp only [InvL_cons] at h
    simp only [breakL_cons, denL_cons, breakS_clen]
    rw [breakS_den hm cur brk s o hc h.1, breakL_den hm cur brk ss _ hc h.2]
theorem breakArms_den {pos f m} (hm : BrkOK pos f m) : ∀ (cur brk : Option Nat) (e : Nat) (ss : List Stmt) (o : Nat),
    CurOK f cur brk → InvArms pos f ss o → denArms pos brk e (breakL m cur ss) o = denArms pos brk e ss o
  | cur, brk, e, [], o, _, _ => by simp [denArms]
  | cur, brk, e, .atom d a :: rest, o, _, h => by simp [InvArms] at h
  | cur, brk, e, .node k b :: rest, o, hc, h => by
    cases k with
    | arm kw c =>
      simp only [InvArms] at h
      simp only [breakL_cons, breakS_arm, denArms, breakL_clen, jcount_breakL, jtail_breakL]
      rw [breakL_den hm cur brk b _ hc h.1, breakArms_den hm cur brk e rest _ hc h.2]
    | els =>
      simp only [InvArms] at h
      simp only [breakL_cons, breakS_els, denArms, breakL_clen]
      rw [breakL_den hm cur brk b _ hc h.1, breakArms_den hm cur brk e rest _ hc h.2]
    | loop id => simp [InvArms] at h
    | doWhile id c => simp [InvArms] at h
    | chain => simp [InvArms] at h
end

/-! ### the map of loop-end labels -/

theorem labelsAfter_ok {pos f} : ∀ (rest : List Stmt) (o : Nat), InvL pos f rest o → ∀ l ∈ labelsAfter rest, pos l = some o
  | [], _, _, l, hl => by simp [labelsAfter] at hl
  | .node k b :: rest, _, _, l, hl => by simp [labelsAfter] at hl
  | .atom d a :: rest, o, h, l, hl => by
    cases a with
    | label l' =>
      simp only [labelsAfter, List.mem_cons] at hl
      simp only [InvL_cons, InvS_atom, clenS_atom, clenAtom, Nat.add_zero] at h
      rcases hl with rfl | hl
      · exact h.1
      · exact labelsAfter_ok rest o h.2 l hl
    | _ => simp [labelsAfter] at hl

def EndOK (pos : Nat → Option Nat) (f : Nat → Nat) (p : Nat × Nat) : Prop := pos p.1 = some (f p.2 + 1)

theorem localEnd_ok {pos f} : ∀ (blk : List Stmt) (o : Nat), InvL pos f blk o → ∀ p ∈ localEndLabels blk, EndOK pos f p
  | [], _, _, p, hp => by simp [localEndLabels] at hp
  | .atom d a :: rest, o, h, p, hp => by
    simp only [localEndLabels] at hp
    simp only [InvL_cons] at h
    exact localEnd_ok rest _ h.2 p hp
  | .node k b :: rest, o, h, p, hp => by
    simp only [InvL_cons] at h
    have ih := localEnd_ok rest _ h.2 p
    cases k with
    | loop id =>
      simp only [localEndLabels, Kind.loopId, List.mem_append, List.mem_map] at hp
      rcases hp with ⟨l, hl, rfl⟩ | hp
      · simp only [InvS_loop, clenS_loop] at h
        have := labelsAfter_ok rest _ h.2 l hl
        simp only [EndOK]; rw [this, ← h.1.1, Nat.add_assoc]
      · exact ih hp
    | doWhile id c =>
      simp only [localEndLabels, Kind.loopId, List.mem_append, List.mem_map] at hp
      rcases hp with ⟨l, hl, rfl⟩ | hp
      · simp only [InvS_doWhile, clenS_doWhile] at h
        have := labelsAfter_ok rest _ h.2 l hl
        simp only [EndOK]; rw [this, ← h.1.1, Nat.add_assoc]
      · exact ih hp
    | chain => simp only [localEndLabels, Kind.loopId] at hp; exact ih hp
    | arm kw c => simp only [localEndLabels, Kind.loopId] at hp; exact ih hp
    | els => simp only [localEndLabels, Kind.loopId] at hp; exact ih hp

mutual
theorem nestedEndS_ok {pos f} : ∀ (s : Stmt) (o : Nat), InvS pos f s o → ∀ p ∈ nestedEndS s, EndOK pos f p
  | .atom d a, _, _, p, hp => by simp [nestedEndS] at hp
  | .node k b, o, h, p, hp => by
    simp only [nestedEndS, List.mem_append] at hp
    cases k with
    | loop id =>
      simp only [InvS_loop] at h
      exact hp.elim (localEnd_ok b o h.2 p) (nestedEndL_ok b o h.2 p)
    | doWhile id c =>
      simp only [InvS_doWhile] at h
      exact hp.elim (localEnd_ok b o h.2 p) (nestedEndL_ok b o h.2 p)
    | chain =>
      simp only [InvS_chain] at h
      exact nestedEndArms_ok b o h p (List.mem_append.mpr hp)
    | arm kw c =>
      simp only [InvS_arm] at h
      exact hp.elim (localEnd_ok b o h p) (nestedEndL_ok b o h p)
    | els =>
      simp only [InvS_els] at h
      exact hp.elim (localEnd_ok b o h p) (nestedEndL_ok b o h p)
theorem nestedEndL_ok {pos f} : ∀ (ss : List Stmt) (o : Nat), InvL pos f ss o → ∀ p ∈ nestedEndL ss, EndOK pos f p
  | [], _, _, p, hp => by simp [nestedEndL] at hp
  | s :: ss, o, h, p, hp => by
    simp only [InvL_cons] at h
    simp only [nestedEndL, List.mem_append] at hp
    exact hp.elim (nestedEndS_ok s o h.1 p) (nestedEndL_ok ss _ h.2 p)
theorem nestedEndArms_ok {pos f} : ∀ (ss : List Stmt) (o : Nat), InvArms pos f ss o →
    ∀ p ∈ localEndLabels ss ++ nestedEndL ss, EndOK pos f p
  | [], _, _, p, hp => by simp [localEndLabels, nestedEndL] at hp
  | .atom d a :: rest, o, h, _, _ => by simp [InvArms] at h
  | .node k b :: rest, o, h, p, hp => by
    cases k with
    | arm kw c =>
      simp only [InvArms] at h
      simp only [localEndLabels, Kind.loopId, nestedEndL, nestedEndS, List.mem_append] at hp
      have ih := nestedEndArms_ok rest _ h.2 p
      rcases hp with hp | (hp | hp) | hp
      · exact ih (List.mem_append.mpr (.inl hp))
      · exact localEnd_ok b _ h.1 p hp
      · exact nestedEndL_ok b _ h.1 p hp
      · exact ih (List.mem_append.mpr (.inr hp))
    | els =>
      simp only [InvArms] at h
      simp only [localEndLabels, Kind.loopId, nestedEndL, nestedEndS, List.mem_append] at hp
      have ih := nestedEndArms_ok rest _ h.2 p
      rcases hp with hp | (hp | hp) | hp
      · exact ih (List.mem_append.mpr (.inl hp))
      · exact localEnd_ok b _ h.1 p hp
      · exact nestedEndL_ok b _ h.1 p hp
      · exact ih (List.mem_append.mpr (.inr hp))
    | loop id => simp [InvArms] at h
    | doWhile id c => simp [InvArms] at h
    | chain => simp [InvArms] at h
end

theorem lookupLast_mem {m : List (Nat × Nat)} {l c : Nat} (h : lookupLast m l = some c) : (l, c) ∈ m := by
  unfold lookupLast at h
  split at h
  · rename_i p hp
    cases h
    have h1 := List.mem_of_find?_eq_some hp
    have h2 := List.find?_some hp
    simp only [beq_iff_eq] at h2
    rw [List.mem_reverse] at h1
    rw [← h2]; exact h1
  · cases h

theorem endLabels_ok {pos f} {root : Block} (h : InvL pos f root 0) : BrkOK pos f (endLabels root) := by
  intro d c hl
  have hm := lookupLast_mem hl
  unfold endLabels at hm
  rw [List.mem_append] at hm
  exact hm.elim (localEnd_ok root 0 h (d, c)) (nestedEndL_ok root 0 h (d, c))

/-- `decompile_break` preserves the resolved code -/
theorem decompileBreak_sem {pos f} {b : Block} (h : InvL pos f b 0) :
    denL pos none (decompileBreak b) 0 = denL pos none b 0 ∧ InvL pos f (decompileBreak b) 0 :=
  ⟨breakL_den (endLabels_ok h) none none b 0 (curOK_none f none) h, breakL_inv pos f _ none b 0 h⟩

/-! ### `unused_labels::run` -/

theorem unusedL_cons_label (rc : Nat → Nat) (d : Option String) (l : Nat) (ss : List Stmt) :
    unusedL rc (.atom d (.label l) :: ss) = if rc l > 0 then .atom d (.label l) :: unusedL rc ss else unusedL rc ss := by
  simp [unusedL]

theorem unusedL_cons_atom (rc : Nat → Nat) (d : Option String) (a : Atom) (ha : ∀ l, a ≠ .label l) (ss : List Stmt) :
    unusedL rc (.atom d a :: ss) = .atom d a :: unusedL rc ss := by
  cases a with
  | label l => exact absurd rfl (ha l)
  | _ => simp [unusedL, unusedS]

theorem unusedL_cons_node (rc : Nat → Nat) (k : Kind) (b ss : List Stmt) :
    unusedL rc (.node k b :: ss) = .node k (unusedL rc b) :: unusedL rc ss := by
  simp [unusedL, unusedS]

theorem jcount_unusedArms (rc : Nat → Nat) : ∀ {pos f} (ss : List Stmt) (o : Nat), InvArms pos f ss o →
    jcount (unusedL rc ss) = jcount ss ∧ ∀ e, jtail e (unusedL rc ss) = jtail e ss
  | _, _, [], _, _ => by simp [unusedL]
  | _, _, .atom d a :: rest, _, h => by simp [InvArms] at h
  | _, _, .node k b :: rest, _, _ => by simp [unusedL_cons_node]

mutual
theorem unusedL_sem {pos f} (rc : Nat → Nat) : ∀ (ss : List Stmt) (o : Nat), InvL pos f ss o →
    (∀ brk, denL pos brk (unusedL rc ss) o = denL pos brk ss o) ∧ clenL (unusedL rc ss) = clenL ss ∧
    InvL pos f (unusedL rc ss) o
  | [], o, _ => by simp [unusedL]
  | .atom d a :: ss, o, h => by
    simp only [InvL_cons] at h
    obtain ⟨ih1, ih2, ih3⟩ := unusedL_sem rc ss _ h.2
    cases a with
    | label l =>
      simp only [clenS_atom, clenAtom, Nat.add_zero] at h ih1 ih3
      rw [unusedL_cons_label]
      split
      · simp only [denL_cons, denS_atom, denAtom, clenS_atom, clenAtom, Nat.add_zero, List.nil_append, clenL_cons, InvL_cons]
        exact ⟨ih1, by simpa using ih2, h.1, ih3⟩
      · simp only [denL_cons, denS_atom, denAtom, clenS_atom, clenAtom, Nat.add_zero, List.nil_append, clenL_cons]
        exact ⟨ih1, by simpa using ih2, ih3⟩
    | jump j =>
      rw [unusedL_cons_atom rc d _ (by intro l h; cases h)]
      simp only [denL_cons, clenL_cons, InvL_cons]
      exact ⟨fun brk => by rw [ih1 brk], by rw [ih2], h.1, ih3⟩
    | condJump kw c j =>
      rw [unusedL_cons_atom rc d _ (by intro l h; cases h)]
      simp only [denL_cons, clenL_cons, InvL_cons]
      exact ⟨fun brk => by rw [ih1 brk], by rw [ih2], h.1, ih3⟩
    | interrupt n =>
      rw [unusedL_cons_atom rc d _ (by intro l h; cases h)]
      simp only [denL_cons, clenL_cons, InvL_cons]
      exact ⟨fun brk => by rw [ih1 brk], by rw [ih2], h.1, ih3⟩
    | absTime t =>
      rw [unusedL_cons_atom rc d _ (by intro l h; cases h)]
      simp only [denL_cons, clenL_cons, InvL_cons]
      exact ⟨fun brk => by rw [ih1 brk], by rw [ih2], h.1, ih3⟩
    | relTime t =>
      rw [unusedL_cons_atom rc d _ (by intro l h; cases h)]
      simp only [denL_cons, clenL_cons, InvL_cons]
      exact ⟨fun brk => by rw [ih1 brk], by rw [ih2], h.1, ih3⟩
    | ins op args =>
      rw [unusedL_cons_atom rc d _ (by intro l h; cases h)]
      simp only [denL_cons, clenL_cons, InvL_cons]
      exact ⟨fun brk => by rw [ih1 brk], by rw [ih2], h.1, ih3⟩
    | set r e =>
      rw [unusedL_cons_atom rc d _ (by intro l h; cases h)]
      simp only [denL_cons, clenL_cons, InvL_cons]
      exact ⟨fun brk => by rw [ih1 brk], by rw [ih2], h.1, ih3⟩
  | .node k b :: ss, o, h => by
    simp only [InvL_cons] at h
    rw [unusedL_cons_node]
    cases k with
    | loop id =>
      simp only [InvS_loop, clenS_loop] at h
      obtain ⟨ib1, ib2, ib3⟩ := unusedL_sem rc b o h.1.2
      obtain ⟨ih1, ih2, ih3⟩ := unusedL_sem rc ss _ h.2
      simp only [denL_cons, denS_loop, clenS_loop, clenL_cons, InvL_cons, InvS_loop, ib2]
      exact ⟨fun brk => by rw [ib1, ih1 brk], by rw [ih2], ⟨h.1.1, ib3⟩, ih3⟩
    | doWhile id c =>
      simp only [InvS_doWhile, clenS_doWhile] at h
      obtain ⟨ib1, ib2, ib3⟩ := unusedL_sem rc b o h.1.2
      obtain ⟨ih1, ih2, ih3⟩ := unusedL_sem rc ss _ h.2
      simp only [denL_cons, denS_doWhile, clenS_doWhile, clenL_cons, InvL_cons, InvS_doWhile, ib2]
      exact ⟨fun brk => by rw [ib1, ih1 brk], by rw [ih2], ⟨h.1.1, ib3⟩, ih3⟩
    | chain =>
      simp only [InvS_chain, clenS_chain] at h
      obtain ⟨ib1, ib2, ib3⟩ := unusedArms_sem rc b o h.1
      obtain ⟨ih1, ih2, ih3⟩ := unusedL_sem rc ss _ h.2
      simp only [denL_cons, denS_chain, clenS_chain, clenL_cons, InvL_cons, InvS_chain, ib2]
      exact ⟨fun brk => by rw [ib1, ih1 brk], by rw [ih2], ib3, ih3⟩
    | arm kw c =>
      simp only [InvS_arm, clenS_arm] at h
      obtain ⟨ib1, ib2, ib3⟩ := unusedL_sem rc b o h.1
      obtain ⟨ih1, ih2, ih3⟩ := unusedL_sem rc ss _ h.2
      simp only [denL_cons, denS_arm, clenS_arm, clenL_cons, InvL_cons, InvS_arm, ib2]
      exact ⟨fun brk => by rw [ib1 brk, ih1 brk], by rw [ih2], ib3, ih3⟩
    | els =>
      simp only [InvS_els, clenS_els] at h
      obtain ⟨ib1, ib2, ib3⟩ := unusedL_sem rc b o h.1
      obtain ⟨ih1, ih2, ih3⟩ := unusedL_sem rc ss _ h.2
      simp only [denL_cons, denS_els, clenS_els, clenL_cons, InvL_cons, InvS_els, ib2]
      exact ⟨fun brk => by rw [ib1 brk, ih1 brk], by rw [ih2], ib3, ih3⟩
theorem unusedArms_sem {pos f} (rc : Nat → Nat) : ∀ (ss : List Stmt) (o : Nat), InvArms pos f ss o →
    (∀ brk e, denArms pos brk e (unusedL rc ss) o = denArms pos brk e ss o) ∧ clenArms (unusedL rc ss) = clenArms ss ∧
    InvArms pos f (unusedL rc ss) o
  | [], o, _ => by simp [unusedL, InvArms]
  | .atom d a :: rest, o, h => by simp [InvArms] at h
  | .node k b :: rest, o, h => by
    rw [unusedL_cons_node]
    cases k with
    | arm kw c =>
      simp only [InvArms] at h
      obtain ⟨ib1, ib2, ib3⟩ := unusedL_sem rc b _ h.1
      obtain ⟨ih1, ih2, ih3⟩ := unusedArms_sem rc rest _ h.2
      obtain ⟨j1, j2⟩ := jcount_unusedArms rc rest _ h.2
      simp only [denArms, clenArms, InvArms, ib2, j1, j2]
      exact ⟨fun brk e => by rw [ib1 brk, ih1 brk e], by rw [ih2], ib3, ih3⟩
    | els =>
      simp only [InvArms] at h
      obtain ⟨ib1, ib2, ib3⟩ := unusedL_sem rc b _ h.1
      obtain ⟨ih1, ih2, ih3⟩ := unusedArms_sem rc rest _ h.2
      simp only [denArms, clenArms, InvArms, ib2]
      exact ⟨fun brk e => by rw [ib1 brk, ih1 brk e], by rw [ih2], ib3, ih3⟩
    | loop id => simp [InvArms] at h
    | doWhile id c => simp [InvArms] at h
    | chain => simp [InvArms] at h
end

end TruthModel.Decomp
