import TruthModel.Model.LowerJumps
/-
Facts about the two executions of lowered streams with jumps (`Model/LowerJumps.lean`) that do not depend on
what the compiler emits:

* `execFrag_append`    a fragment `a ++ b` runs `a` and then, according to how `a` was left, runs `b` or
                       looks for the label in `b`;
* `execFrag_lift`      straight-line code runs as `exec` runs it;
* `execFrag_seek_skip` looking for a label passes over code that does not define it;
* `execFrag_reach`     (the link to the whole-program machine) if the labels defined in a fragment are
                       pairwise different and not defined before it, then whatever `execFrag` computes for the
                       fragment, `execJ`'s step relation computes inside every program `pre ++ code ++ post`:
                       falling out of the fragment arrives at the statement after it, leaving it by a jump
                       arrives where the program defines that label.
-/
namespace TruthModel.Lower
open TruthModel TruthModel.Regs

/-- labels defined in a fragment -/
def labelsOf : List JStmt → List Nat
  | [] => []
  | .label _ l :: rest => l :: labelsOf rest
  | _ :: rest => labelsOf rest

theorem labelsOf_append : ∀ (a b : List JStmt), labelsOf (a ++ b) = labelsOf a ++ labelsOf b
  | [], _ => rfl
  | s :: a, b => by
    cases s <;> simp [labelsOf, labelsOf_append a b]

theorem labelsOf_lift : ∀ c : List LStmt, labelsOf (liftCode c) = []
  | [] => rfl
  | _ :: c => by
    have := labelsOf_lift c
    simpa [liftCode, labelsOf] using this

theorem labelsOf_freeOfJ (o : Option Def) : labelsOf (freeOfJ o) = [] := labelsOf_lift _

/-- how the rest of a fragment is entered after a part of it was left with `e` -/
def modeOf : Exit → FragMode
  | .fall => .run
  | .jump l time => .seek l time

theorem execFrag_append (F : FloatOps) (diff : Nat) : ∀ (a b : List JStmt) (mode : FragMode) (s : JM),
    execFrag F diff mode (a ++ b) s = match execFrag F diff mode a s with
      | .ok (e, s') => execFrag F diff (modeOf e) b s'
      | .err c => .err c
      | .panic p => .panic p
  | [], b, .run, s => by simp [execFrag, modeOf]
  | [], b, .seek l time, s => by simp [execFrag, modeOf]
  | st :: a, b, .seek l time, s => by
    cases st with
    | label t l' =>
      simp only [List.cons_append, execFrag]
      split
      · exact execFrag_append F diff a b .run _
      · exact execFrag_append F diff a b (.seek l time) s
    | _ => simp only [List.cons_append, execFrag]; exact execFrag_append F diff a b (.seek l time) s
  | st :: a, b, .run, s => by
    simp only [List.cons_append, execFrag]
    cases hst : stepJ F diff s st with
    | ok r =>
      obtain ⟨s', f⟩ := r
      cases f with
      | next => exact execFrag_append F diff a b .run s'
      | jump l time => exact execFrag_append F diff a b (.seek l time) s'
    | err c => rfl
    | panic p => rfl

theorem execFrag_append_ok {F : FloatOps} {diff : Nat} {a b : List JStmt} {mode : FragMode} {s s' : JM} {e : Exit}
    {r : Outcome (Exit × JM)} (h1 : execFrag F diff mode a s = .ok (e, s')) (h2 : execFrag F diff (modeOf e) b s' = r) :
    execFrag F diff mode (a ++ b) s = r := by
  rw [execFrag_append, h1]; exact h2

/-- straight-line code runs as `exec` runs it and is left at its end -/
theorem execFrag_lift (F : FloatOps) (diff : Nat) (cmp : Option (Value × Value)) :
    ∀ (c : List LStmt) (m m' : Machine), exec F diff m c = .ok m' →
      execFrag F diff .run (liftCode c) ⟨m, cmp⟩ = .ok (.fall, ⟨m', cmp⟩)
  | [], m, m', h => by
    simp only [exec, Outcome.ok.injEq] at h; subst h; rfl
  | st :: c, m, m', h => by
    simp only [exec] at h
    cases hs : execStmt F diff m st with
    | ok m1 =>
      rw [hs] at h
      simp only [liftCode, List.map_cons, execFrag, stepJ, hs]
      exact execFrag_lift F diff cmp c m1 m' h
    | err x => rw [hs] at h; cases h
    | panic x => rw [hs] at h; cases h

/-- looking for a label passes over code that does not define it -/
theorem execFrag_seek_skip (F : FloatOps) (diff : Nat) (l : Nat) (time : Option Int) :
    ∀ (c : List JStmt) (s : JM), (∀ l' ∈ labelsOf c, l' ≠ l) →
      execFrag F diff (.seek l time) c s = .ok (.jump l time, s)
  | [], s, _ => rfl
  | st :: c, s, h => by
    cases st with
    | label t l' =>
      have hne : l' ≠ l := h l' (by simp [labelsOf])
      simp only [execFrag, hne, if_false]
      exact execFrag_seek_skip F diff l time c s (fun x hx => h x (by simp [labelsOf, hx]))
    | _ =>
      simp only [execFrag]
      exact execFrag_seek_skip F diff l time c s (fun x hx => h x (by simpa [labelsOf] using hx))

/-- frees of temporaries do nothing, whichever way they are passed -/
theorem execFrag_frees (F : FloatOps) (diff : Nat) (o : Option Def) (e : Exit) (s : JM) :
    execFrag F diff (modeOf e) (freeOfJ o) s = .ok (e, s) := by
  cases o <;> cases e <;> simp [freeOfJ, freeOf, liftCode, modeOf, execFrag, stepJ, execStmt]

/-! ## the link to the whole-program machine -/

/-- reflexive-transitive closure of `stepPc` -/
inductive Reach (F : FloatOps) (diff : Nat) (P : List JStmt) : Nat → JM → Nat → JM → Prop
  | refl (pc : Nat) (s : JM) : Reach F diff P pc s pc s
  | step (pc : Nat) (s : JM) (pc1 : Nat) (s1 : JM) (pc2 : Nat) (s2 : JM) :
      stepPc F diff P pc s = .ok (some (pc1, s1)) → Reach F diff P pc1 s1 pc2 s2 → Reach F diff P pc s pc2 s2

theorem Reach.trans {F : FloatOps} {diff : Nat} {P : List JStmt} {pc pc1 pc2 : Nat} {s s1 s2 : JM}
    (h1 : Reach F diff P pc s pc1 s1) (h2 : Reach F diff P pc1 s1 pc2 s2) : Reach F diff P pc s pc2 s2 := by
  induction h1 with
  | refl => exact h2
  | step pc s pa sa pb sb hs _ ih => exact .step pc s pa sa pc2 s2 hs (ih h2)

/-- `Reach` is what `execJ` does: from a state that `Reach`es the end of the program `execJ` returns it -/
theorem execJ_of_reach {F : FloatOps} {diff : Nat} {P : List JStmt} {pc : Nat} {s s' : JM}
    (h : Reach F diff P pc s P.length s') : ∃ fuel, execJ F diff P fuel pc s = .ok s' := by
  generalize hn : P.length = n at h
  induction h with
  | refl pc s =>
    refine ⟨1, ?_⟩
    subst hn
    simp [execJ, stepPc]
  | step pc s pc1 s1 pc2 s2 hs _ ih =>
    obtain ⟨fuel, hf⟩ := ih hn
    exact ⟨fuel + 1, by simp [execJ, hs, hf]⟩

theorem findLabelJ_shift : ∀ (c : List JStmt) (l k : Nat),
    findLabelJ c l k = (findLabelJ c l 0).map (fun r => (r.1 + k, r.2))
  | [], _, _ => rfl
  | st :: c, l, k => by
    have h1 := findLabelJ_shift c l (k + 1)
    have h2 := findLabelJ_shift c l 1
    cases st with
    | label t l' =>
      simp only [findLabelJ]
      split
      · simp
      · rw [h1, h2]; cases findLabelJ c l 0 <;> simp [Nat.add_comm, Nat.add_left_comm]
    | _ =>
      simp only [findLabelJ]
      rw [h1, h2]; cases findLabelJ c l 0 <;> simp [Nat.add_comm, Nat.add_left_comm]

theorem findLabelJ_none : ∀ (c : List JStmt) (l : Nat), l ∉ labelsOf c → findLabelJ c l 0 = none
  | [], _, _ => rfl
  | st :: c, l, h => by
    cases st with
    | label t l' =>
      have hne : l' ≠ l := fun e => h (by simp [labelsOf, e])
      simp only [findLabelJ, hne, if_false]
      rw [findLabelJ_shift, findLabelJ_none c l (fun hm => h (by simp [labelsOf, hm]))]; rfl
    | _ =>
      simp only [findLabelJ]
      rw [findLabelJ_shift, findLabelJ_none c l (fun hm => h (by simpa [labelsOf] using hm))]; rfl

theorem findLabelJ_append (a b : List JStmt) (l : Nat) (h : l ∉ labelsOf a) :
    findLabelJ (a ++ b) l 0 = (findLabelJ b l 0).map (fun r => (r.1 + a.length, r.2)) := by
  induction a with
  | nil =>
    simp only [List.nil_append, List.length_nil, Nat.add_zero]
    cases findLabelJ b l 0 <;> rfl
  | cons st a ih =>
    have ih' := ih (fun hm => h (by cases st <;> simp [labelsOf, hm]))
    cases st with
    | label t l' =>
      have hne : l' ≠ l := fun e => h (by simp [labelsOf, e])
      simp only [List.cons_append, findLabelJ, hne, if_false]
      rw [findLabelJ_shift, ih']
      cases findLabelJ b l 0 <;> simp [Nat.add_assoc]
    | _ =>
      simp only [List.cons_append, findLabelJ]
      rw [findLabelJ_shift, ih']
      cases findLabelJ b l 0 <;> simp [Nat.add_assoc]

theorem findLabelJ_append_left_some : ∀ {a : List JStmt} (b : List JStmt) {l k j : Nat} {tl : Int},
    findLabelJ a l k = some (j, tl) → findLabelJ (a ++ b) l k = some (j, tl)
  | [], _, _, _, _, _, h => by simp [findLabelJ] at h
  | st :: a, b, l, k, j, tl, h => by
    cases st with
    | label t l' =>
      simp only [List.cons_append, findLabelJ] at h ⊢
      split
      · rename_i e; simpa [e] using h
      · rename_i e; simp only [e, if_false] at h; exact findLabelJ_append_left_some b h
    | _ =>
      simp only [List.cons_append, findLabelJ] at h ⊢
      exact findLabelJ_append_left_some b h

/-- what looking for a label in the rest of a fragment does, in terms of `findLabelJ` -/
theorem execFrag_seek (F : FloatOps) (diff : Nat) (l : Nat) (time : Option Int) : ∀ (c : List JStmt) (s : JM),
    execFrag F diff (.seek l time) c s = match findLabelJ c l 0 with
      | none => .ok (.jump l time, s)
      | some (j, tl) => execFrag F diff .run (c.drop (j + 1)) (s.setTime (time.getD tl))
  | [], s => rfl
  | st :: c, s => by
    have ih := execFrag_seek F diff l time c s
    have hsh := findLabelJ_shift c l 1
    cases st with
    | label t l' =>
      simp only [execFrag, findLabelJ]
      split
      · simp
      · rw [ih, hsh]; cases findLabelJ c l 0 <;> simp
    | _ =>
      simp only [execFrag, findLabelJ]
      rw [ih, hsh]; cases findLabelJ c l 0 <;> simp

theorem findLabelJ_lt : ∀ (c : List JStmt) (l k j : Nat) (tl : Int), findLabelJ c l k = some (j, tl) → k ≤ j ∧ j < k + c.length
  | [], _, _, _, _, h => by simp [findLabelJ] at h
  | st :: c, l, k, j, tl, h => by
    cases st with
    | label t l' =>
      simp only [findLabelJ] at h
      split at h
      · simp only [Option.some.injEq, Prod.mk.injEq] at h; obtain ⟨rfl, _⟩ := h; simp
      · have := findLabelJ_lt c l (k + 1) j tl h; simp only [List.length_cons]; omega
    | _ =>
      simp only [findLabelJ] at h
      have := findLabelJ_lt c l (k + 1) j tl h; simp only [List.length_cons]; omega

theorem findLabelJ_mem : ∀ (c : List JStmt) (l k j : Nat) (tl : Int), findLabelJ c l k = some (j, tl) → l ∈ labelsOf c
  | [], _, _, _, _, h => by simp [findLabelJ] at h
  | st :: c, l, k, j, tl, h => by
    cases st with
    | label t l' =>
      simp only [findLabelJ] at h
      split at h
      · rename_i e; simp [labelsOf, e]
      · simp [labelsOf, findLabelJ_mem c l (k + 1) j tl h]
    | _ =>
      simp only [findLabelJ] at h
      simpa [labelsOf] using findLabelJ_mem c l (k + 1) j tl h

theorem findLabelJ_get : ∀ (c : List JStmt) (l k j : Nat) (tl : Int), findLabelJ c l k = some (j, tl) →
    c[j - k]? = some (.label tl l)
  | [], _, _, _, _, h => by simp [findLabelJ] at h
  | st :: c, l, k, j, tl, h => by
    cases st with
    | label t l' =>
      simp only [findLabelJ] at h
      split at h
      · rename_i e
        simp only [Option.some.injEq, Prod.mk.injEq] at h
        obtain ⟨rfl, rfl⟩ := h
        simp [e]
      · have hb := findLabelJ_lt c l (k + 1) j tl h
        have := findLabelJ_get c l (k + 1) j tl h
        have hjk : j - k = (j - (k + 1)) + 1 := by omega
        rw [hjk, List.getElem?_cons_succ]; exact this
    | _ =>
      simp only [findLabelJ] at h
      have hb := findLabelJ_lt c l (k + 1) j tl h
      have := findLabelJ_get c l (k + 1) j tl h
      have hjk : j - k = (j - (k + 1)) + 1 := by omega
      rw [hjk, List.getElem?_cons_succ]; exact this

/-- labels defined in the fragment are pairwise different and not defined before it -/
structure Hygienic (pre code : List JStmt) : Prop where
  nodup : (labelsOf code).Nodup
  fresh : ∀ l ∈ labelsOf code, l ∉ labelsOf pre

theorem labelsOf_take_drop (c : List JStmt) (n : Nat) : labelsOf c = labelsOf (c.take n) ++ labelsOf (c.drop n) := by
  rw [← labelsOf_append, List.take_append_drop]

/-- **execFrag_reach**: inside any program `pre ++ code ++ post` whose labels are hygienic for `code`, the
whole-program machine started at the `k`-th statement of `code` (having run `code.take k`) does what
`execFrag` computes for the rest of the fragment: falling out of it arrives at `post`; leaving it by a jump to
`l` arrives wherever the program defines `l`, with the time of the jump (or of the label). -/
theorem execFrag_reach (F : FloatOps) (diff : Nat) (pre code post : List JStmt) (hy : Hygienic pre code) :
    ∀ (n k : Nat) (s s' : JM) (e : Exit), code.length - k = n → k ≤ code.length →
      execFrag F diff .run (code.drop k) s = .ok (e, s') →
      match e with
      | .fall => Reach F diff (pre ++ code ++ post) (pre.length + k) s (pre.length + code.length) s'
      | .jump l time => ∀ i tl, findLabelJ (pre ++ code ++ post) l 0 = some (i, tl) →
          Reach F diff (pre ++ code ++ post) (pre.length + k) s i (s'.setTime (time.getD tl)) := by
  intro n
  induction n using Nat.strongRecOn with
  | _ n ih =>
    intro k s s' e hn hk h
    by_cases hend : k = code.length
    · subst hend
      simp only [List.drop_length, execFrag, Outcome.ok.injEq, Prod.mk.injEq] at h
      obtain ⟨rfl, rfl⟩ := h
      exact .refl _ _
    · have hlt : k < code.length := Nat.lt_of_le_of_ne hk hend
      have hget : (pre ++ (code ++ post))[pre.length + k]? = some code[k] := by
        rw [List.getElem?_append_right (Nat.le_add_right _ _)]
        simp [List.getElem?_append_left hlt]
      have hdrop : code.drop k = code[k] :: code.drop (k + 1) := (List.drop_eq_getElem_cons hlt)
      rw [hdrop] at h
      simp only [execFrag] at h
      cases hst : stepJ F diff s code[k] with
      | err c => simp [hst] at h
      | panic p => simp [hst] at h
      | ok r =>
        obtain ⟨s1, f⟩ := r
        simp only [hst] at h
        cases f with
        | next =>
          dsimp only at h
          have hstep : stepPc F diff (pre ++ code ++ post) (pre.length + k) s = .ok (some (pre.length + k + 1, s1)) := by
            simp [stepPc, List.append_assoc, hget, hst]
          have hrec := ih (code.length - (k + 1)) (by omega) (k + 1) s1 s' e rfl (by omega) h
          cases e with
          | fall => exact .step _ _ _ _ _ _ hstep (by simpa [Nat.add_assoc] using hrec)
          | jump l time =>
            intro i tl hi
            exact .step _ _ _ _ _ _ hstep (by simpa [Nat.add_assoc] using hrec i tl hi)
        | jump l time =>
          dsimp only at h
          rw [execFrag_seek] at h
          cases hfl : findLabelJ (code.drop (k + 1)) l 0 with
          | none =>
            -- the fragment is left by this jump
            simp only [hfl, Outcome.ok.injEq, Prod.mk.injEq] at h
            obtain ⟨rfl, rfl⟩ := h
            intro i tl hi
            have hstep : stepPc F diff (pre ++ code ++ post) (pre.length + k) s = .ok (some (i, s1.setTime (time.getD tl))) := by
              simp [stepPc, List.append_assoc] at hi ⊢; simp [hget, hst, hi]
            exact .step _ _ _ _ _ _ hstep (.refl _ _)
          | some r =>
            obtain ⟨j, tj⟩ := r
            simp only [hfl] at h
            -- the label follows in the fragment; it is the program's first definition of `l`
            have hmem : l ∈ labelsOf (code.drop (k + 1)) := findLabelJ_mem _ _ _ _ _ hfl
            have hsplit := labelsOf_take_drop code (k + 1)
            have hnd := hy.nodup
            rw [hsplit] at hnd
            have hnot_take : l ∉ labelsOf (code.take (k + 1)) := fun hm =>
              (List.nodup_append.mp hnd).2.2 l hm l hmem rfl
            have hin : l ∈ labelsOf code := by rw [hsplit]; exact List.mem_append_right _ hmem
            have hnot_pre : l ∉ labelsOf pre := hy.fresh l hin
            have hj := findLabelJ_lt _ _ _ _ _ hfl
            simp only [List.length_drop] at hj
            have hfind : findLabelJ (pre ++ code ++ post) l 0 = some (pre.length + (k + 1 + j), tj) := by
              have hcp : code ++ post = code.take (k + 1) ++ (code.drop (k + 1) ++ post) := by
                rw [← List.append_assoc, List.take_append_drop]
              rw [List.append_assoc, findLabelJ_append pre _ l hnot_pre, hcp, findLabelJ_append _ _ l hnot_take,
                findLabelJ_append_left_some post hfl]
              simp only [Option.map_some, List.length_take, Option.some.injEq, Prod.mk.injEq, and_true]
              omega
            have hstep : stepPc F diff (pre ++ code ++ post) (pre.length + k) s =
                .ok (some (pre.length + (k + 1 + j), s1.setTime (time.getD tj))) := by
              simp [stepPc, List.append_assoc] at hfind ⊢; simp [hget, hst, hfind]
            have hdd : (code.drop (k + 1)).drop (j + 1) = code.drop (k + 1 + j + 1) := by
              rw [List.drop_drop]; rfl
            rw [hdd] at h
            -- the machine lands ON the label statement, which it then steps over
            have hlab : code[k + 1 + j]? = some (.label tj l) := by
              have := findLabelJ_get _ _ _ _ _ hfl
              simpa [List.getElem?_drop] using this
            have hjlt : k + 1 + j < code.length := by omega
            have hdropj : code.drop (k + 1 + j) = .label tj l :: code.drop (k + 1 + j + 1) := by
              rw [List.drop_eq_getElem_cons hjlt]
              congr 1
              have := List.getElem?_eq_getElem hjlt
              rw [this] at hlab
              exact Option.some.inj hlab
            have h' : execFrag F diff .run (code.drop (k + 1 + j)) (s1.setTime (time.getD tj)) = .ok (e, s') := by
              rw [hdropj]; simpa [execFrag, stepJ] using h
            have hrec := ih (code.length - (k + 1 + j)) (by omega) (k + 1 + j) _ s' e rfl (by omega) h'
            cases e with
            | fall => exact .step _ _ _ _ _ _ hstep hrec
            | jump l2 time2 =>
              intro i tl hi
              exact .step _ _ _ _ _ _ hstep (hrec i tl hi)

end TruthModel.Lower
