/-
C07, semantic half, layer 3: the resolved code of `lower fresh t` is `denL` of the tree
(`resolve_lower`): the fresh labels that `lower` generates are pairwise distinct, distinct from the
labels of the tree, and stand exactly at the code indices `denL` computes structurally.
-/
import TruthModel.Lemmas.DecompDen
namespace TruthModel.Decomp
open List

/-! ### equations for `lower` -/

def lowAtom (brk : Option Nat) : Atom → Atom
  | .jump .brk => (match brk with | some e => .jump (.goto e none) | none => .jump .brk)
  | .condJump kw c .brk => (match brk with | some e => .condJump kw c (.goto e none) | none => .condJump kw c .brk)
  | a => a

theorem lowerS_atom (brk : Option Nat) (d : Option String) (a : Atom) (n : Nat) :
    lowerS brk (.atom d a) n = ([(d, lowAtom brk a)], n) := by
  cases a with
  | jump j => cases j <;> cases brk <;> simp [lowerS, lowAtom]
  | condJump kw c j => cases j <;> cases brk <;> simp [lowerS, lowAtom]
  | _ => simp [lowerS, lowAtom]

theorem lowerS_loop (brk : Option Nat) (id : Nat) (b : List Stmt) (n : Nat) :
    lowerS brk (.node (.loop id) b) n =
      ((none, .label n) :: (lowerL (some (n + 1)) b (n + 2)).1 ++ [(none, .jump (.goto n none)), (none, .label (n + 1))],
       (lowerL (some (n + 1)) b (n + 2)).2) := by
  simp [lowerS]

theorem lowerS_doWhile (brk : Option Nat) (id : Nat) (c : Expr) (b : List Stmt) (n : Nat) :
    lowerS brk (.node (.doWhile id c) b) n =
      ((none, .label n) :: (lowerL (some (n + 1)) b (n + 2)).1 ++
          [(none, .condJump .if_ c (.goto n none)), (none, .label (n + 1))],
       (lowerL (some (n + 1)) b (n + 2)).2) := by
  simp [lowerS]

theorem lowerS_chain (brk : Option Nat) (b : List Stmt) (n : Nat) :
    lowerS brk (.node .chain b) n =
      ((lowerArms brk n b (n + 1)).1 ++ [(none, .label n)], (lowerArms brk n b (n + 1)).2) := by
  simp [lowerS]

theorem lowerS_arm (brk : Option Nat) (kw c) (b : List Stmt) (n : Nat) :
    lowerS brk (.node (.arm kw c) b) n = lowerL brk b n := by
  simp [lowerS]

theorem lowerS_els (brk : Option Nat) (b : List Stmt) (n : Nat) :
    lowerS brk (.node .els b) n = lowerL brk b n := by
  simp [lowerS]

theorem lowerL_nil (brk : Option Nat) (n : Nat) : lowerL brk [] n = ([], n) := by simp [lowerL]

theorem lowerL_cons (brk : Option Nat) (s : Stmt) (ss : List Stmt) (n : Nat) :
    lowerL brk (s :: ss) n =
      ((lowerS brk s n).1 ++ (lowerL brk ss (lowerS brk s n).2).1, (lowerL brk ss (lowerS brk s n).2).2) := by
  simp [lowerL]

theorem lowerArms_nil (brk : Option Nat) (e n : Nat) : lowerArms brk e [] n = ([], n) := by simp [lowerArms]

theorem lowerArms_atom (brk : Option Nat) (e : Nat) (d a) (rest : List Stmt) (n : Nat) :
    lowerArms brk e (.atom d a :: rest) n = ((d, a) :: (lowerArms brk e rest n).1, (lowerArms brk e rest n).2) := by
  simp [lowerArms]

theorem lowerArms_arm (brk : Option Nat) (e : Nat) (kw c) (b rest : List Stmt) (n : Nat) :
    lowerArms brk e (.node (.arm kw c) b :: rest) n =
      ((none, .condJump (flipKw kw) c (.goto n none)) :: (lowerL brk b (n + 1)).1 ++
        jtail e rest ++ [(none, .label n)] ++
        (lowerArms brk e rest (lowerL brk b (n + 1)).2).1,
       (lowerArms brk e rest (lowerL brk b (n + 1)).2).2) := by
  cases kw <;> cases rest <;> simp [lowerArms, flipKw]

/-- the children of a chain that are not arms: only the body counts -/
theorem lowerArms_other (brk : Option Nat) (e : Nat) (k : Kind) (hk : ∀ kw c, k ≠ .arm kw c) (b rest : List Stmt) (n : Nat) :
    lowerArms brk e (.node k b :: rest) n =
      ((lowerL brk b n).1 ++ (lowerArms brk e rest (lowerL brk b n).2).1, (lowerArms brk e rest (lowerL brk b n).2).2) := by
  cases k with
  | arm kw c => exact absurd rfl (hk kw c)
  | _ => simp [lowerArms]

/-! ### labels of a flat program -/

def labsF (p : List Leaf) : List Nat := p.filterMap labOf

/-- (label, code index) of every label definition, counting from `k` -/
def layF : List Leaf → Nat → List (Nat × Nat)
  | [], _ => []
  | x :: rest, k =>
    match labOf x with
    | some l => (l, k) :: layF rest k
    | none => layF rest (k + 1)

theorem labsF_append (p q : List Leaf) : labsF (p ++ q) = labsF p ++ labsF q := by simp [labsF]

theorem layF_append (p q : List Leaf) (k : Nat) : layF (p ++ q) k = layF p k ++ layF q (k + (code p).length) := by
  induction p generalizing k with
  | nil => simp [layF]
  | cons x xs ih =>
    cases hx : labOf x with
    | some l =>
      have hl : isLab x = true := by simp [isLab, hx]
      simp [layF, hx, ih, code_cons_lab hl]
    | none =>
      have hl : isLab x = false := by simp [isLab, hx]
      have e : k + 1 + (code xs).length = k + ((code xs).length + 1) := by omega
      simp [layF, hx, ih, code_cons_code hl, e]

theorem mem_layF_labs {p : List Leaf} {k : Nat} {q : Nat × Nat} (h : q ∈ layF p k) : q.1 ∈ labsF p := by
  induction p generalizing k with
  | nil => simp [layF] at h
  | cons x xs ih =>
    cases hx : labOf x with
    | some l =>
      simp only [layF, hx, List.mem_cons] at h
      rcases h with h | h
      · subst h; simp [labsF, hx]
      · have := ih h; simp only [labsF, List.filterMap_cons, hx] at this ⊢; exact List.mem_cons_of_mem _ this
    | none =>
      simp only [layF, hx] at h
      have := ih h; simp only [labsF, List.filterMap_cons, hx] at this ⊢; exact this

/-- with pairwise distinct labels every definition is the first one -/
theorem ctgtFrom_of_mem_layF {p : List Leaf} (hnd : (labsF p).Nodup) {k : Nat} {q : Nat × Nat} (h : q ∈ layF p k) :
    ctgtFrom q.1 p k = some q.2 := by
  induction p generalizing k with
  | nil => simp [layF] at h
  | cons x xs ih =>
    cases hx : labOf x with
    | some l =>
      simp only [labsF, List.filterMap_cons, hx, List.nodup_cons] at hnd
      simp only [layF, hx, List.mem_cons] at h
      simp only [ctgtFrom, hx]
      rcases h with h | h
      · subst h; simp
      · have hne : q.1 ≠ l := by
          intro e; have := mem_layF_labs h; rw [e] at this; exact hnd.1 this
        rw [if_neg hne]
        exact ih hnd.2 h
    | none =>
      simp only [labsF, List.filterMap_cons, hx] at hnd
      simp only [layF, hx] at h
      simp only [ctgtFrom, hx]
      exact ih hnd h

/-- `tgt` sends every label defined in `q` (standing at code index `o`) to its code index -/
def Placed (tgt : Nat → Option Nat) (q : List Leaf) (o : Nat) : Prop := ∀ x ∈ layF q o, tgt x.1 = some x.2

theorem Placed.append {tgt : Nat → Option Nat} {p q : List Leaf} {o : Nat} :
    Placed tgt (p ++ q) o ↔ Placed tgt p o ∧ Placed tgt q (o + (code p).length) := by
  simp only [Placed, layF_append, List.mem_append]
  exact ⟨fun h => ⟨fun x hx => h x (.inl hx), fun x hx => h x (.inr hx)⟩, fun h x hx => hx.elim (h.1 x) (h.2 x)⟩

theorem placed_ctgt {p : List Leaf} (hnd : (labsF p).Nodup) : Placed (ctgt p) p 0 :=
  fun _ hx => ctgtFrom_of_mem_layF hnd hx

def resolveWith (tgt : Nat → Option Nat) (q : List Leaf) : List Leaf := (code q).map (rLeaf tgt)

theorem resolveWith_append (tgt : Nat → Option Nat) (p q : List Leaf) :
    resolveWith tgt (p ++ q) = resolveWith tgt p ++ resolveWith tgt q := by
  simp [resolveWith, code_append]

theorem resolve_eq_resolveWith (p : List Leaf) : resolve p = resolveWith (ctgt p) p := rfl

/-! ### the fresh labels -/

structure LowOK (labels : List Nat) (n : Nat) (r : List Leaf × Nat) (cl : Nat) : Prop where
  mono : n ≤ r.2
  mem : ∀ l ∈ labsF r.1, l ∈ labels ∨ (n ≤ l ∧ l < r.2)
  nodup : labels.Nodup → (∀ l ∈ labels, l < n) → (labsF r.1).Nodup
  clen : (code r.1).length = cl

theorem LowOK.append {l1 l2 : List Nat} {n : Nat} {r1 r2 : List Leaf × Nat} {c1 c2 : Nat}
    (h1 : LowOK l1 n r1 c1) (h2 : LowOK l2 r1.2 r2 c2) : LowOK (l1 ++ l2) n (r1.1 ++ r2.1, r2.2) (c1 + c2) := by
  have m1 := h1.mono
  have m2 := h2.mono
  refine ⟨Nat.le_trans m1 m2, ?_, ?_, by simp [code_append, h1.clen, h2.clen]⟩
  · intro l hl
    simp only [labsF_append, List.mem_append] at hl ⊢
    rcases hl with hl | hl
    · rcases h1.mem l hl with h | h
      · exact .inl (.inl h)
      · exact .inr ⟨h.1, by omega⟩
    · rcases h2.mem l hl with h | h
      · exact .inl (.inr h)
      · exact .inr ⟨by omega, h.2⟩
  · intro hnd hlt
    rw [List.nodup_append] at hnd
    simp only [labsF_append]
    rw [List.nodup_append]
    refine ⟨h1.nodup hnd.1 (fun l hl => hlt l (by simp [hl])),
      h2.nodup hnd.2.1 (fun l hl => Nat.lt_of_lt_of_le (hlt l (by simp [hl])) m1), ?_⟩
    intro a ha b hb hab
    subst hab
    rcases h1.mem a ha with h | h <;> rcases h2.mem a hb with h' | h'
    · exact hnd.2.2 a h a h' rfl
    · have := hlt a (by simp [h]); omega
    · have := hlt a (by simp [h']); omega
    · omega

theorem labsF_cons_lab (d : Option String) (l : Nat) (p : List Leaf) : labsF ((d, .label l) :: p) = l :: labsF p := by
  simp [labsF, labOf]

theorem labsF_cons_code {x : Leaf} (h : isLab x = false) (p : List Leaf) : labsF (x :: p) = labsF p := by
  have : labOf x = none := by simpa [isLab] using h
  simp [labsF, this]

theorem isLab_lowAtom (brk : Option Nat) (d : Option String) (a : Atom) : labOf (d, lowAtom brk a) = labOf (d, a) := by
  cases a with
  | jump j => cases j <;> cases brk <;> rfl
  | condJump kw c j => cases j <;> cases brk <;> rfl
  | _ => rfl

theorem labOf_atom (d : Option String) (a : Atom) : labOf (d, a) = (match a with | .label l => some l | _ => none) := by
  cases a <;> rfl

theorem lowAtom_labs (brk : Option Nat) (d : Option String) (a : Atom) :
    labsF [(d, lowAtom brk a)] = (Stmt.atom d a).labels ∧ (code [(d, lowAtom brk a)]).length = clenAtom a := by
  cases a with
  | jump j => cases j <;> cases brk <;> simp [labsF, lowAtom, labOf, Stmt.labels, code, isLab, clenAtom]
  | condJump kw c j => cases j <;> cases brk <;> simp [labsF, lowAtom, labOf, Stmt.labels, code, isLab, clenAtom]
  | _ => simp [labsF, lowAtom, labOf, Stmt.labels, code, isLab, clenAtom]

theorem lowAtom_ok (brk : Option Nat) (d : Option String) (a : Atom) (n : Nat) :
    LowOK (Stmt.atom d a).labels n ([(d, lowAtom brk a)], n) (clenAtom a) := by
  obtain ⟨h1, h2⟩ := lowAtom_labs brk d a
  refine ⟨Nat.le_refl _, ?_, ?_, h2⟩
  · intro l hl; left; rw [← h1]; exact hl
  · intro hnd _; rw [h1]; exact hnd

/-- a loop: fresh labels `n` in front and `n + 1` behind, one jump -/
theorem LowOK.loop {L : List Nat} {n : Nat} {r : List Leaf × Nat} {c : Nat} (x : Leaf) (hx : isLab x = false)
    (h : LowOK L (n + 2) r c) :
    LowOK L n ((none, .label n) :: r.1 ++ [x, (none, .label (n + 1))], r.2) (c + 1) := by
  have m := h.mono
  have hl : labsF ((none, Atom.label n) :: r.1 ++ [x, (none, .label (n + 1))]) = n :: labsF r.1 ++ [n + 1] := by
    rw [List.cons_append, labsF_cons_lab, labsF_append, labsF_cons_code hx, labsF_cons_lab]; rfl
  refine ⟨by omega, ?_, ?_, ?_⟩
  · intro l hl'
    rw [hl] at hl'
    simp only [List.cons_append, List.mem_cons, List.mem_append, List.mem_singleton, List.not_mem_nil, or_false] at hl'
    rcases hl' with rfl | hl' | rfl
    · right; omega
    · rcases h.mem l hl' with h' | h'
      · left; exact h'
      · right; omega
    · right; omega
  · intro hnd hlt
    rw [hl]
    have hr := h.nodup hnd (fun l hl => by have := hlt l hl; omega)
    have hn : ∀ l ∈ labsF r.1, l ≠ n ∧ l ≠ n + 1 := by
      intro l hl'
      rcases h.mem l hl' with h' | h'
      · have := hlt l h'; omega
      · omega
    rw [List.cons_append, List.nodup_cons, List.nodup_append]
    refine ⟨?_, hr, by simp, ?_⟩
    · simp only [List.mem_append, List.mem_singleton]
      rintro (h' | h')
      · exact (hn n h').1 rfl
      · omega
    · intro a ha b hb hab
      simp only [List.mem_singleton] at hb
      subst hb; subst hab
      exact (hn _ ha).2 rfl
  · rw [List.cons_append, code_cons_lab (isLab_label _ _), code_append, code_cons_code hx,
      code_cons_lab (isLab_label _ _)]
    simp [h.clen]

mutual
theorem lowerS_ok : ∀ (brk : Option Nat) (s : Stmt) (n : Nat), LowOK s.labels n (lowerS brk s n) (clenS s)
  | brk, .atom d a, n => by rw [lowerS_atom, clenS_atom]; exact lowAtom_ok brk d a n
  | brk, .node k b, n => by
    cases k with
    | loop id =>
      rw [lowerS_loop, clenS_loop, labels_node]
      exact LowOK.loop _ rfl (lowerL_ok (some (n + 1)) b (n + 2))
    | doWhile id c =>
      rw [lowerS_doWhile, clenS_doWhile, labels_node]
      exact LowOK.loop _ rfl (lowerL_ok (some (n + 1)) b (n + 2))
    | chain =>
      rw [lowerS_chain, clenS_chain, labels_node]
      have h := lowerArms_ok brk n b (n + 1)
      have m := h.mono
      refine ⟨by omega, ?_, ?_, ?_⟩
      · intro l hl
        simp only [labsF_append, List.mem_append] at hl
        rcases hl with hl | hl
        · rcases h.mem l hl with h' | h'
          · left; exact h'
          · right; dsimp only; omega
        · simp [labsF, labOf] at hl; subst hl; right; dsimp only; omega
      · intro hnd hlt
        simp only [labsF_append]
        rw [List.nodup_append]
        refine ⟨h.nodup hnd (fun l hl => by have := hlt l hl; omega), by simp [labsF, labOf], ?_⟩
        intro a ha b' hb hab
        simp [labsF, labOf] at hb
        subst hb; subst hab
        rcases h.mem _ ha with h' | h'
        · have := hlt _ h'; omega
        · omega
      · rw [code_append, code_cons_lab (isLab_label _ _)]; simp [h.clen]
    | arm kw c => rw [lowerS_arm, clenS_arm, labels_node]; exact lowerL_ok brk b n
    | els => rw [lowerS_els, clenS_els, labels_node]; exact lowerL_ok brk b n
theorem lowerL_ok : ∀ (brk : Option Nat) (ss : List Stmt) (n : Nat), LowOK (labelsL ss) n (lowerL brk ss n) (clenL ss)
  | brk, [], n => by
    rw [lowerL_nil]
    exact ⟨Nat.le_refl _, by simp [labsF], by simp [labsF], by simp⟩
  | brk, s :: ss, n => by
    rw [lowerL_cons, labelsL_cons, clenL_cons]
    exact (lowerS_ok brk s n).append (lowerL_ok brk ss _)
theorem lowerArms_ok : ∀ (brk : Option Nat) (e : Nat) (ss : List Stmt) (n : Nat),
    LowOK (labelsL ss) n (lowerArms brk e ss n) (clenArms ss)
  | brk, e, [], n => by
    rw [lowerArms_nil]
    exact ⟨Nat.le_refl _, by simp [labsF], by simp [labsF], by simp [clenArms]⟩
  | brk, e, .atom d a :: rest, n => by
    rw [lowerArms_atom, labelsL_cons]
    have h1 : LowOK (Stmt.atom d a).labels n ([(d, a)], n) (clenAtom a) := by
      have := lowAtom_ok none d a n
      have e : lowAtom none a = a := by
        cases a with
        | jump j => cases j <;> rfl
        | condJump kw c j => cases j <;> rfl
        | _ => rfl
      rwa [e] at this
    have := h1.append (lowerArms_ok brk e rest n)
    simpa [clenArms] using this
  | brk, e, .node k b :: rest, n => by
    cases k with
    | arm kw c =>
      rw [lowerArms_arm, labelsL_cons, labels_node]
      have hb := lowerL_ok brk b (n + 1)
      have hr := lowerArms_ok brk e rest (lowerL brk b (n + 1)).2
      have hbr := hb.append hr
      have m := hbr.mono
      -- the arm: one conditional jump, the body, maybe a jump, the fresh label `n`
      generalize hj : jtail e rest = J
      have hJ : labsF J = [] ∧ (code J).length = jcount rest := by
        subst hj; cases rest <;> simp [labsF, labOf, code, isLab]
      have hl : labsF ((none, Atom.condJump (flipKw kw) c (.goto n none)) :: (lowerL brk b (n + 1)).1 ++ J ++
          [(none, .label n)] ++ (lowerArms brk e rest (lowerL brk b (n + 1)).2).1) =
          labsF (lowerL brk b (n + 1)).1 ++ n :: labsF (lowerArms brk e rest (lowerL brk b (n + 1)).2).1 := by
        simp only [List.cons_append, labsF_append, labsF_cons_code (x := (none, Atom.condJump (flipKw kw) c (.goto n none))) rfl,
          hJ.1, labsF_cons_lab, List.append_nil, List.append_assoc]
        simp [labsF]
      refine ⟨by dsimp only at m ⊢; omega, ?_, ?_, ?_⟩
      · intro l hl'
        rw [hl] at hl'
        simp only [List.mem_append, List.mem_cons] at hl'
        dsimp only at m ⊢
        rcases hl' with hl' | rfl | hl'
        · rcases hbr.mem l (by simp [labsF_append, hl']) with h' | h'
          · left; exact h'
          · right; dsimp only at h'; omega
        · right; omega
        · rcases hbr.mem l (by simp [labsF_append, hl']) with h' | h'
          · left; exact h'
          · right; dsimp only at h'; omega
      · intro hnd hlt
        rw [hl]
        have hnd' := hbr.nodup hnd (fun l hl => by have := hlt l hl; omega)
        simp only [labsF_append] at hnd'
        rw [List.nodup_append] at hnd' ⊢
        have hn : ∀ l ∈ labsF (lowerL brk b (n + 1)).1 ++ labsF (lowerArms brk e rest (lowerL brk b (n + 1)).2).1, l ≠ n := by
          intro l hl'
          rcases hbr.mem l (by simpa [labsF_append] using hl') with h' | h'
          · have := hlt l h'; omega
          · omega
        refine ⟨hnd'.1, ?_, ?_⟩
        · rw [List.nodup_cons]
          exact ⟨fun h' => hn n (by simp [h']) rfl, hnd'.2.1⟩
        · intro a ha b' hb' hab
          simp only [List.mem_cons] at hb'
          rcases hb' with rfl | hb'
          · exact hn a (by simp [ha]) hab
          · exact hnd'.2.2 a ha b' hb' hab
      · simp only [List.cons_append, List.append_assoc, List.nil_append]
        rw [code_cons_code rfl, code_append, code_append, code_cons_lab (isLab_label _ _)]
        simp only [List.length_cons, List.length_append, hb.clen, hJ.2, hr.clen, clenArms]
        omega
    | loop id =>
      rw [lowerArms_other _ _ _ (by intro kw c h; cases h), labelsL_cons, labels_node]
      simpa [clenArms] using (lowerL_ok brk b n).append (lowerArms_ok brk e rest _)
    | doWhile id c =>
      rw [lowerArms_other _ _ _ (by intro kw c h; cases h), labelsL_cons, labels_node]
      simpa [clenArms] using (lowerL_ok brk b n).append (lowerArms_ok brk e rest _)
    | chain =>
      rw [lowerArms_other _ _ _ (by intro kw c h; cases h), labelsL_cons, labels_node]
      simpa [clenArms] using (lowerL_ok brk b n).append (lowerArms_ok brk e rest _)
    | els =>
      rw [lowerArms_other _ _ _ (by intro kw c h; cases h), labelsL_cons, labels_node]
      simpa [clenArms] using (lowerL_ok brk b n).append (lowerArms_ok brk e rest _)
end

/-! ### resolving the lowering with any placement of its labels gives `den` -/

theorem placed_lab {tgt : Nat → Option Nat} {d : Option String} {l : Nat} {q : List Leaf} {o : Nat} :
    Placed tgt ((d, .label l) :: q) o ↔ tgt l = some o ∧ Placed tgt q o := by
  simp only [Placed, layF, labOf, List.mem_cons]
  exact ⟨fun h => ⟨h (l, o) (.inl rfl), fun x hx => h x (.inr hx)⟩, fun h x hx => by
    rcases hx with rfl | hx
    · exact h.1
    · exact h.2 x hx⟩

theorem placed_code {tgt : Nat → Option Nat} {x : Leaf} (hx : isLab x = false) {q : List Leaf} {o : Nat} :
    Placed tgt (x :: q) o ↔ Placed tgt q (o + 1) := by
  have : labOf x = none := by simpa [isLab] using hx
  simp only [Placed, layF, this]

theorem placed_nil (tgt : Nat → Option Nat) (o : Nat) : Placed tgt [] o := by simp [Placed, layF]

theorem resolveWith_lab (tgt : Nat → Option Nat) (d : Option String) (l : Nat) (q : List Leaf) :
    resolveWith tgt ((d, .label l) :: q) = resolveWith tgt q := by
  simp [resolveWith, code_cons_lab (isLab_label d l)]

theorem resolveWith_code (tgt : Nat → Option Nat) {x : Leaf} (hx : isLab x = false) (q : List Leaf) :
    resolveWith tgt (x :: q) = rLeaf tgt x :: resolveWith tgt q := by
  simp [resolveWith, code_cons_code hx]

@[simp] theorem resolveWith_nil (tgt : Nat → Option Nat) : resolveWith tgt [] = [] := rfl

theorem resolveWith_lowAtom (tgt : Nat → Option Nat) (brk : Option Nat) (d : Option String) (a : Atom) :
    resolveWith tgt [(d, lowAtom brk a)] = denAtom tgt (brk.bind tgt) d a := by
  cases a with
  | label l => rfl
  | jump j =>
    cases j with
    | goto l t => rfl
    | brk =>
      cases brk with
      | none => rfl
      | some e =>
        simp only [lowAtom, resolveWith, code, isLab, labOf, Option.isSome_none, Bool.not_false, List.filter_cons_of_pos,
          List.filter_nil, List.map_cons, List.map_nil, rLeaf, rAtom, rj, denAtom, denJ, Option.bind_some, brkJ]
        cases tgt e <;> rfl
  | condJump kw c j =>
    cases j with
    | goto l t => rfl
    | brk =>
      cases brk with
      | none => rfl
      | some e =>
        simp only [lowAtom, resolveWith, code, isLab, labOf, Option.isSome_none, Bool.not_false, List.filter_cons_of_pos,
          List.filter_nil, List.map_cons, List.map_nil, rLeaf, rAtom, rj, denAtom, denJ, Option.bind_some, brkJ]
        cases tgt e <;> rfl
  | _ => rfl

theorem lowAtom_none (a : Atom) : lowAtom none a = a := by
  cases a with
  | jump j => cases j <;> rfl
  | condJump kw c j => cases j <;> rfl
  | _ => rfl

theorem resolveWith_jtail (tgt : Nat → Option Nat) {e ee : Nat} (h : tgt e = some ee) (rest : List Stmt) :
    resolveWith tgt (jtail e rest) = jtail ee rest := by
  cases rest with
  | nil => rfl
  | cons s ss =>
    simp only [jtail_cons, resolveWith, code, isLab, labOf, Option.isSome_none, Bool.not_false, List.filter_cons_of_pos,
      List.filter_nil, List.map_cons, List.map_nil, rLeaf, rAtom, rj, h]

theorem placed_jtail (tgt : Nat → Option Nat) (e : Nat) (rest : List Stmt) (q : List Leaf) (o : Nat) :
    Placed tgt (jtail e rest ++ q) o ↔ Placed tgt q (o + jcount rest) := by
  cases rest with
  | nil => simp
  | cons s ss => simp only [jtail_cons, jcount_cons, List.singleton_append]; exact placed_code rfl

/-- what the label statements of a tree say about `tgt`, given where they are in the lowering -/
def LabelsAt (tgt : Nat → Option Nat) (labels : List Nat) (inv : (Nat → Option Nat) → (Nat → Nat) → Prop) : Prop :=
  ∀ pos f, inv pos f → ∀ l ∈ labels, tgt l = pos l

mutual
theorem lowerS_den (tgt : Nat → Option Nat) : ∀ (brk : Option Nat) (s : Stmt) (n o : Nat), Placed tgt (lowerS brk s n).1 o →
    resolveWith tgt (lowerS brk s n).1 = denS tgt (brk.bind tgt) s o ∧
    LabelsAt tgt s.labels (fun pos f => InvS pos f s o)
  | brk, .atom d a, n, o, hp => by
    rw [lowerS_atom] at hp ⊢
    refine ⟨by rw [denS_atom]; exact resolveWith_lowAtom tgt brk d a, ?_⟩
    intro pos f hinv l hl
    cases a with
    | label l' =>
      simp only [Stmt.labels, List.mem_singleton] at hl
      subst hl
      simp only [InvS_atom] at hinv
      rw [hinv]
      exact (placed_lab.mp (by simpa [lowAtom] using hp)).1
    | _ => simp [Stmt.labels] at hl
  | brk, .node k b, n, o, hp => by
    cases k with
    | loop id =>
      rw [lowerS_loop] at hp ⊢
      dsimp only at hp ⊢
      rw [List.cons_append, placed_lab, Placed.append, (lowerL_ok _ b _).clen, placed_code rfl, placed_lab] at hp
      obtain ⟨h1, h2, h3, _⟩ := hp
      obtain ⟨ih, ihl⟩ := lowerL_den tgt (some (n + 1)) b (n + 2) o h2
      refine ⟨?_, ?_⟩
      · rw [List.cons_append, resolveWith_lab, resolveWith_append, ih, resolveWith_code tgt rfl, resolveWith_lab]
        simp only [Option.bind_some, h3, denS_loop, resolveWith_nil, rLeaf, rAtom, rj, h1]
      · intro pos f hinv l hl
        rw [InvS_loop] at hinv
        exact ihl pos f hinv.2 l (by simpa using hl)
    | doWhile id c =>
      rw [lowerS_doWhile] at hp ⊢
      dsimp only at hp ⊢
      rw [List.cons_append, placed_lab, Placed.append, (lowerL_ok _ b _).clen, placed_code rfl, placed_lab] at hp
      obtain ⟨h1, h2, h3, _⟩ := hp
      obtain ⟨ih, ihl⟩ := lowerL_den tgt (some (n + 1)) b (n + 2) o h2
      refine ⟨?_, ?_⟩
      · rw [List.cons_append, resolveWith_lab, resolveWith_append, ih, resolveWith_code tgt rfl, resolveWith_lab]
        simp only [Option.bind_some, h3, denS_doWhile, resolveWith_nil, rLeaf, rAtom, rj, h1, normCond_if]
      · intro pos f hinv l hl
        rw [InvS_doWhile] at hinv
        exact ihl pos f hinv.2 l (by simpa using hl)
    | chain =>
      rw [lowerS_chain] at hp ⊢
      dsimp only at hp ⊢
      rw [Placed.append, (lowerArms_ok _ _ b _).clen, placed_lab] at hp
      obtain ⟨h1, h2, _⟩ := hp
      obtain ⟨ih, ihl⟩ := lowerArms_den tgt brk n (o + clenArms b) b (n + 1) o h2 h1
      refine ⟨?_, ?_⟩
      · rw [resolveWith_append, ih, resolveWith_lab, denS_chain]; simp
      · intro pos f hinv l hl
        rw [InvS_chain] at hinv
        exact ihl pos f hinv l (by simpa using hl)
    | arm kw c =>
      rw [lowerS_arm] at hp ⊢
      obtain ⟨ih, ihl⟩ := lowerL_den tgt brk b n o hp
      exact ⟨by rw [ih, denS_arm], fun pos f hinv l hl => ihl pos f (by simpa using hinv) l (by simpa using hl)⟩
    | els =>
      rw [lowerS_els] at hp ⊢
      obtain ⟨ih, ihl⟩ := lowerL_den tgt brk b n o hp
      exact ⟨by rw [ih, denS_els], fun pos f hinv l hl => ihl pos f (by simpa using hinv) l (by simpa using hl)⟩
theorem lowerL_den (tgt : Nat → Option Nat) : ∀ (brk : Option Nat) (ss : List Stmt) (n o : Nat), Placed tgt (lowerL brk ss n).1 o →
    resolveWith tgt (lowerL brk ss n).1 = denL tgt (brk.bind tgt) ss o ∧
    LabelsAt tgt (labelsL ss) (fun pos f => InvL pos f ss o)
  | brk, [], n, o, _ => by
    rw [lowerL_nil]
    exact ⟨by simp, fun pos f _ l hl => by simp at hl⟩
  | brk, s :: ss, n, o, hp => by
    rw [lowerL_cons] at hp ⊢
    dsimp only at hp ⊢
    rw [Placed.append, (lowerS_ok brk s n).clen] at hp
    obtain ⟨ih1, il1⟩ := lowerS_den tgt brk s n o hp.1
    obtain ⟨ih2, il2⟩ := lowerL_den tgt brk ss _ _ hp.2
    refine ⟨by rw [resolveWith_append, ih1, ih2, denL_cons], ?_⟩
    intro pos f hinv l hl
    rw [InvL_cons] at hinv
    rw [labelsL_cons, List.mem_append] at hl
    rcases hl with hl | hl
    · exact il1 pos f hinv.1 l hl
    · exact il2 pos f hinv.2 l hl
theorem lowerArms_den (tgt : Nat → Option Nat) : ∀ (brk : Option Nat) (e ee : Nat) (ss : List Stmt) (n o : Nat),
    tgt e = some ee → Placed tgt (lowerArms brk e ss n).1 o →
    resolveWith tgt (lowerArms brk e ss n).1 = denArms tgt (brk.bind tgt) ee ss o ∧
    LabelsAt tgt (labelsL ss) (fun pos f => InvArms pos f ss o)
  | brk, e, ee, [], n, o, _, _ => by
    rw [lowerArms_nil]
    exact ⟨by simp [denArms], fun pos f _ l hl => by simp at hl⟩
  | brk, e, ee, .atom d a :: rest, n, o, he, hp => by
    rw [lowerArms_atom] at hp ⊢
    dsimp only at hp ⊢
    have hp' : Placed tgt ([(d, a)] ++ (lowerArms brk e rest n).1) o := hp
    rw [Placed.append] at hp'
    have hc : (code [(d, a)]).length = clenAtom a := by
      have := (lowAtom_labs none d a).2; rwa [lowAtom_none] at this
    rw [hc] at hp'
    obtain ⟨ih, _⟩ := lowerArms_den tgt brk e ee rest n _ he hp'.2
    refine ⟨?_, fun pos f hinv => by simp [InvArms] at hinv⟩
    have h1 := resolveWith_lowAtom tgt none d a
    rw [lowAtom_none] at h1
    have : resolveWith tgt ((d, a) :: (lowerArms brk e rest n).1) =
        resolveWith tgt [(d, a)] ++ resolveWith tgt (lowerArms brk e rest n).1 := resolveWith_append tgt [(d, a)] _
    rw [this, h1, ih]
    simp [denArms]
  | brk, e, ee, .node k b :: rest, n, o, he, hp => by
    cases k with
    | arm kw c =>
      rw [lowerArms_arm] at hp ⊢
      dsimp only at hp ⊢
      simp only [List.cons_append, List.append_assoc, List.nil_append] at hp ⊢
      rw [placed_code rfl, Placed.append, (lowerL_ok brk b _).clen, placed_jtail, placed_lab] at hp
      obtain ⟨h1, h2, h3⟩ := hp
      obtain ⟨ih1, il1⟩ := lowerL_den tgt brk b (n + 1) (o + 1) h1
      obtain ⟨ih2, il2⟩ := lowerArms_den tgt brk e ee rest _ _ he (by simpa using h3)
      refine ⟨?_, ?_⟩
      · rw [resolveWith_code tgt rfl, resolveWith_append, resolveWith_append, resolveWith_jtail tgt he, resolveWith_lab, ih1]
        rw [ih2]
        simp only [denArms, rLeaf, rAtom, rj, h2, List.append_assoc, List.cons_append]
      · intro pos f hinv l hl
        simp only [InvArms] at hinv
        rw [labelsL_cons, labels_node, List.mem_append] at hl
        rcases hl with hl | hl
        · exact il1 pos f hinv.1 l hl
        · exact il2 pos f hinv.2 l hl
    | els =>
      rw [lowerArms_other _ _ _ (by intro kw c h; cases h)] at hp ⊢
      dsimp only at hp ⊢
      rw [Placed.append, (lowerL_ok brk b _).clen] at hp
      obtain ⟨ih1, il1⟩ := lowerL_den tgt brk b n o hp.1
      obtain ⟨ih2, il2⟩ := lowerArms_den tgt brk e ee rest _ _ he hp.2
      refine ⟨by rw [resolveWith_append, ih1, ih2]; simp [denArms], ?_⟩
      intro pos f hinv l hl
      simp only [InvArms] at hinv
      rw [labelsL_cons, labels_node, List.mem_append] at hl
      rcases hl with hl | hl
      · exact il1 pos f hinv.1 l hl
      · exact il2 pos f hinv.2 l hl
    | loop id =>
      rw [lowerArms_other _ _ _ (by intro kw c h; cases h)] at hp ⊢
      dsimp only at hp ⊢
      rw [Placed.append, (lowerL_ok brk b _).clen] at hp
      obtain ⟨ih1, _⟩ := lowerL_den tgt brk b n o hp.1
      obtain ⟨ih2, _⟩ := lowerArms_den tgt brk e ee rest _ _ he hp.2
      exact ⟨by rw [resolveWith_append, ih1, ih2]; simp [denArms], fun pos f hinv => by simp [InvArms] at hinv⟩
    | doWhile id c =>
      rw [lowerArms_other _ _ _ (by intro kw c h; cases h)] at hp ⊢
      dsimp only at hp ⊢
      rw [Placed.append, (lowerL_ok brk b _).clen] at hp
      obtain ⟨ih1, _⟩ := lowerL_den tgt brk b n o hp.1
      obtain ⟨ih2, _⟩ := lowerArms_den tgt brk e ee rest _ _ he hp.2
      exact ⟨by rw [resolveWith_append, ih1, ih2]; simp [denArms], fun pos f hinv => by simp [InvArms] at hinv⟩
    | chain =>
      rw [lowerArms_other _ _ _ (by intro kw c h; cases h)] at hp ⊢
      dsimp only at hp ⊢
      rw [Placed.append, (lowerL_ok brk b _).clen] at hp
      obtain ⟨ih1, _⟩ := lowerL_den tgt brk b n o hp.1
      obtain ⟨ih2, _⟩ := lowerArms_den tgt brk e ee rest _ _ he hp.2
      exact ⟨by rw [resolveWith_append, ih1, ih2]; simp [denArms], fun pos f hinv => by simp [InvArms] at hinv⟩
end

/-- `resolve_lower`: for a tree whose label definitions are pairwise distinct and below `fresh`, whose
label statements sit where `pos` says and whose mentioned labels are all defined, the resolved code
of the lowering is `denL pos`. -/
theorem resolve_lower {pos : Nat → Option Nat} {f : Nat → Nat} {t : Block} {fresh : Nat}
    (hnd : (labelsL t).Nodup) (hlt : ∀ l ∈ labelsL t, l < fresh) (hinv : InvL pos f t 0)
    (hdef : ∀ l ∈ refsL t, l ∈ labelsL t) :
    resolve (lower fresh t) = denL pos none t 0 := by
  unfold lower
  have hok := lowerL_ok none t fresh
  have hpl := placed_ctgt (hok.nodup hnd hlt)
  obtain ⟨h1, h2⟩ := lowerL_den (ctgt (lowerL none t fresh).1) none t fresh 0 hpl
  rw [resolve_eq_resolveWith, h1]
  exact denL_congr _ t 0 (fun l hl => h2 pos f hinv l (hdef l hl))

end TruthModel.Decomp
