/-
C07, semantic half, assembly: the four passes of `postprocess` in sequence preserve the resolved code
of a flat block (`passes_den`), for `pos` = where the labels of the flat block stand and `f` = the
code index of every statement of the flat block.
-/
import TruthModel.Lemmas.DecompLower
import TruthModel.Lemmas.DecompLoopSem
import TruthModel.Lemmas.DecompChainSem
import TruthModel.Lemmas.DecompBreakSem
namespace TruthModel.Decomp
open List

/-- for a flat block `den` is the resolution of its leaves -/
theorem denL_flat (pos : Nat → Option Nat) {ss : Block} (hflat : Flat ss) (o : Nat) :
    denL pos none ss o = resolveWith pos (atomsL ss) := by
  induction ss generalizing o with
  | nil => simp
  | cons s rest ih =>
    obtain ⟨d, a, rfl⟩ := hflat s (List.mem_cons_self ..)
    have hr : Flat rest := fun x hx => hflat x (List.mem_cons_of_mem _ hx)
    have h1 := resolveWith_lowAtom pos none d a
    rw [lowAtom_none] at h1
    simp only [denL_cons, denS_atom, atomsL_cons, atoms_atom, ih hr]
    rw [resolveWith_append, h1]; rfl

theorem labsF_atomsL_flat {ss : Block} (hflat : Flat ss) : labsF (atomsL ss) = labelsL ss := by
  induction ss with
  | nil => rfl
  | cons s rest ih =>
    obtain ⟨d, a, rfl⟩ := hflat s (List.mem_cons_self ..)
    have hr : Flat rest := fun x hx => hflat x (List.mem_cons_of_mem _ hx)
    simp only [atomsL_cons, atoms_atom, labelsL_cons, labsF_append, ih hr]
    congr 1
    cases a <;> rfl

/-- in a flat block whose labels resolve to where they stand, everything is where `pos` says -/
theorem flat_inv (pos : Nat → Option Nat) (f : Nat → Nat) {ss : Block} (hflat : Flat ss) (o : Nat)
    (hp : Placed pos (atomsL ss) o) : InvL pos f ss o := by
  induction ss generalizing o with
  | nil => simp
  | cons s rest ih =>
    obtain ⟨d, a, rfl⟩ := hflat s (List.mem_cons_self ..)
    have hr : Flat rest := fun x hx => hflat x (List.mem_cons_of_mem _ hx)
    simp only [atomsL_cons, atoms_atom, List.singleton_append] at hp
    rw [InvL_cons]
    cases a with
    | label l =>
      rw [placed_lab] at hp
      exact ⟨by simpa using hp.1, by simpa [clenAtom] using ih hr o hp.2⟩
    | jump j => exact ⟨by simp, by simpa [clenAtom] using ih hr _ ((placed_code rfl).mp hp)⟩
    | condJump kw c j => exact ⟨by simp, by simpa [clenAtom] using ih hr _ ((placed_code rfl).mp hp)⟩
    | interrupt n => exact ⟨by simp, by simpa [clenAtom] using ih hr _ ((placed_code rfl).mp hp)⟩
    | absTime t => exact ⟨by simp, by simpa [clenAtom] using ih hr _ ((placed_code rfl).mp hp)⟩
    | relTime t => exact ⟨by simp, by simpa [clenAtom] using ih hr _ ((placed_code rfl).mp hp)⟩
    | ins op args => exact ⟨by simp, by simpa [clenAtom] using ih hr _ ((placed_code rfl).mp hp)⟩
    | set r e => exact ⟨by simp, by simpa [clenAtom] using ih hr _ ((placed_code rfl).mp hp)⟩

theorem le_foldl_max : ∀ (l : List Nat) (init x : Nat), x ∈ l ∨ x ≤ init → x ≤ l.foldl max init
  | [], init, x, h => by
    rcases h with h | h
    · simp at h
    · simpa using h
  | y :: ys, init, x, h => by
    simp only [List.foldl_cons]
    apply le_foldl_max ys
    rcases h with h | h
    · rcases List.mem_cons.mp h with rfl | h
      · right; exact Nat.le_max_right _ _
      · left; exact h
    · right; exact Nat.le_trans h (Nat.le_max_left _ _)

/-- the four passes, for a flat block with pairwise distinct labels and no `break` -/
theorem passes_den {ss a b : Block} (hflat : Flat ss) (hnd : (labelsL ss).Nodup) (hnb : NoBrkA (atomsL ss))
    (ha : decompileLoop ss = .ok a) (hb : decompileIfElse a = .ok b) :
    denL (ctgt (atomsL ss)) none (removeUnusedLabels (decompileBreak b)) 0 = resolve (atomsL ss) ∧
    InvL (ctgt (atomsL ss)) (fun c => clenL (ss.take c)) (removeUnusedLabels (decompileBreak b)) 0 := by
  have hpl : Placed (ctgt (atomsL ss)) (atomsL ss) 0 := placed_ctgt (by rw [labsF_atomsL_flat hflat]; exact hnd)
  have hinv0 := flat_inv (ctgt (atomsL ss)) (fun c => clenL (ss.take c)) hflat 0 hpl
  obtain ⟨d1, i1, n1⟩ := decompileLoop_sem hflat (fun _ => rfl) hinv0 hnb ha
  obtain ⟨d2, i2⟩ := decompileIfElse_sem hb i1
  obtain ⟨d3, i3⟩ := decompileBreak_sem i2
  obtain ⟨d4, _, i4⟩ := unusedL_sem (refcount (decompileBreak b)) (decompileBreak b) 0 i3
  refine ⟨?_, i4⟩
  unfold removeUnusedLabels
  rw [d4 none, d3, d2 none, d1, denL_flat _ hflat 0]; rfl

end TruthModel.Decomp
