import TruthModel.Model.Scope
import TruthModel.Lemmas.Scope
/-
Helper lemmas for C10: every identifier occurrence is handled exactly once, no assertion fires.
-/
namespace TruthModel.Scope

/-- what an event writes or reports: `some id` for the one primary event of occurrence `id`,
`none` for a fired assertion; redefinition diagnostics come on top of the declaration's own event -/
def evKey : Event → List (Option Nat)
  | .selfRes id => [some id]
  | .res id _ => [some id]
  | .err id _ => [some id]
  | .redef _ _ => []
  | .panic _ => [none]
  | .skipped id => [some id]

mutual
/-- the identifier occurrences of an expression, in text order -/
def exprIds : Expr → List Nat
  | .use u => [u.id]
  | .group es => exprsIds es
  | .call u args => u.id :: exprsIds args
  | .raw _ args => exprsIds args
def exprsIds : List Expr → List Nat
  | [] => []
  | e :: es => exprIds e ++ exprsIds es
end

def useIds (es : List Expr) : List Nat := exprsIds es

mutual
/-- identifier occurrences of a statement in the order the resolver handles them (the item
declarations of a block first, as they are pre-declared) -/
def stmtIds : Stmt → List Nat
  | .expr us => useIds us
  | .decl vars => vars.flatMap fun v => useIds v.init ++ [v.id]
  | .block b => (itemDecls b).map (·.2.1) ++ stmtsIds b
  | .func _ _ _ params body => params.map (·.1) ++ ((itemDecls body).map (·.2.1) ++ stmtsIds body)
  | .const vars => vars.flatMap fun v => useIds v.init
  | .script b => (itemDecls b).map (·.2.1) ++ stmtsIds b
  | .funcDecl _ _ _ params => params.map (·.1)
def stmtsIds : List Stmt → List Nat
  | [] => []
  | s :: ss => stmtIds s ++ stmtsIds ss
end

def blockIds (b : List Stmt) : List Nat := (itemDecls b).map (·.2.1) ++ stmtsIds b

def VEntry.clean : VEntry → Prop
  | .loc _ d => d ≠ .enumDummy
  | .item d => d ≠ .enumDummy
  | .blocked _ _ => True

/-- no program declaration is the enum-const dummy -/
def EnvClean (env : Env) : Prop := ∀ n e, env.vars n = some e → e.clean

theorem envClean_update (env : Env) (h : EnvClean env) (a : Name) (k : LocalKind) (id : Nat) :
    EnvClean { env with vars := update env.vars a (.loc k (.decl id)) } := by
  intro n e he
  simp only [update] at he
  split at he
  · cases he; simp [VEntry.clean]
  · exact h n e he

theorem envClean_hide (env : Env) (h : EnvClean env) (ik : ItemKind) : EnvClean (env.hide ik) := by
  intro n e he
  simp only [Env.hide] at he
  cases hv : env.vars n with
  | none => simp [hv] at he
  | some e0 =>
    simp only [hv, Option.map_some, Option.some.injEq] at he
    subst he
    have := h n e0 hv
    cases e0 <;> simp_all [hideEntry, VEntry.clean]

theorem envClean_withItems (env : Env) (h : EnvClean env) (ds : List (Ns × Nat × Name)) :
    EnvClean (env.withItems ds) := by
  intro n e he
  simp only [Env.withItems] at he
  cases hl : lastDecl ds .vars n with
  | none => simp only [hl] at he; exact h n e he
  | some id => simp only [hl, Option.some.injEq] at he; subst he; simp [VEntry.clean]

theorem envClean_empty : EnvClean Env.empty := by
  intro n e he; simp [Env.empty] at he

theorem enumOwners_ne_nil (g : Globals) (n : Name) (h : g.enumConsts.any (fun p => p.2 == n) = true) :
    g.enumOwners n ≠ [] := by
  unfold Globals.enumOwners
  obtain ⟨p, hp, hpn⟩ := List.any_eq_true.mp h
  have hmem : p.1 ∈ (g.enumConsts.filter fun p => p.2 == n).map (·.1) :=
    List.mem_map.mpr ⟨p, List.mem_filter.mpr ⟨hp, hpn⟩, rfl⟩
  intro hnil
  have : p.1 ∈ ((g.enumConsts.filter fun p => p.2 == n).map (·.1)).eraseDups := List.mem_eraseDups.mpr hmem
  rw [hnil] at this
  simp at this

theorem globalVar_dummy (g : Globals) (lang : Option Lang) (n : Name) (h : g.globalVar lang n = .ok .enumDummy) :
    g.enumConsts.any (fun p => p.2 == n) = true := by
  unfold Globals.globalVar at h
  by_cases h1 : g.enumConsts.any (fun p => p.2 == n) = true
  · exact h1
  · exfalso
    rw [if_neg h1] at h
    by_cases h2 : g.builtins.contains n = true
    · rw [if_pos h2] at h; simp at h
    · rw [if_neg h2] at h
      cases lang with
      | none => simp at h
      | some l =>
        simp only [] at h
        by_cases h3 : g.langs.contains l = true
        · rw [if_pos h3] at h
          cases hla : lastAlias g.regAliases l n <;> rw [hla] at h <;> simp at h
        · rw [if_neg h3] at h; simp at h

theorem specUse_key (g : Globals) (lang : Option Lang) (env : Env) (hc : EnvClean env) (u : Use) :
    evKey (specUse g lang env u) = [some u.id] := by
  unfold specUse
  cases u.enumQual with
  | some e =>
    simp only [resolveQualifiedEnumConst]
    split
    · split <;> rfl
    · rfl
  | none =>
  simp only []
  unfold specUseScoped
  cases u.ns with
  | funcs =>
    simp only []
    cases lookupFunc g lang env u.name <;> rfl
  | vars =>
    simp only []
    cases hl : lookupVar g lang env u.name with
    | error e => rfl
    | ok d =>
      cases d with
      | enumDummy =>
        have hany : g.enumConsts.any (fun p => p.2 == u.name) = true := by
          unfold lookupVar at hl
          cases hv : env.vars u.name with
          | none => simp only [hv] at hl; exact globalVar_dummy g lang u.name hl
          | some e =>
            have hcl := hc u.name e hv
            cases e with
            | loc k d => simp only [hv, Except.ok.injEq] at hl; subst hl; simp [VEntry.clean] at hcl
            | item d => simp only [hv, Except.ok.injEq] at hl; subst hl; simp [VEntry.clean] at hcl
            | blocked k ik => simp [hv] at hl
        have hne := enumOwners_ne_nil g u.name hany
        simp only [finishVar, resolveUnqualifiedEnumConst]
        split
        · rfl
        · split
          · rename_i h; exact absurd h hne
          · rfl
          · rfl
      | decl id => rfl
      | regAlias l r => rfl
      | insAlias l r => rfl
      | enumConst e n => rfl
      | builtin n => rfl

mutual
theorem skipExpr_key : ∀ (e : Expr), (skipExpr e).flatMap evKey = (exprIds e).map some
  | .use u => by simp [skipExpr, exprIds, evKey]
  | .group es => by simp only [skipExpr, exprIds]; exact skipExprs_key es
  | .call u args => by
    simp only [skipExpr, exprIds, List.flatMap_cons, List.map_cons, evKey, List.singleton_append]
    rw [skipExprs_key args]
  | .raw _ args => by simp only [skipExpr, exprIds]; exact skipExprs_key args
theorem skipExprs_key : ∀ (es : List Expr), (skipExprs es).flatMap evKey = (exprsIds es).map some
  | [] => by simp [skipExprs, exprsIds]
  | e :: es => by
    simp only [skipExprs, exprsIds, List.flatMap_append, List.map_append]
    rw [skipExpr_key e, skipExprs_key es]
end

/-- Every identifier of an expression gets exactly one primary event, in text order: a looked-up
one is resolved or diagnosed, one in an argument beyond the callee's parameters is `skipped`. -/
theorem walk_key (g : Globals) (lang : Option Lang) (look : Use → Event)
    (hl : ∀ u, evKey (look u) = [some u.id]) :
    (∀ (e : Expr) (c : Option Name), (walkExpr g lang look c e).flatMap evKey = (exprIds e).map some) ∧
    (∀ (es : List Expr) (c : Option Name), (walkExprs g lang look c es).flatMap evKey = (exprsIds es).map some) ∧
    (∀ (es : List Expr) (c : Option Name) (sig : Option Sig),
      (walkArgs g lang look c sig es).flatMap evKey = (exprsIds es).map some) := by
  have key : ∀ n : Nat,
      (∀ (e : Expr), sizeOf e < n → ∀ c, (walkExpr g lang look c e).flatMap evKey = (exprIds e).map some) ∧
      (∀ (es : List Expr), sizeOf es < n → ∀ c, (walkExprs g lang look c es).flatMap evKey = (exprsIds es).map some) ∧
      (∀ (es : List Expr), sizeOf es < n → ∀ c sig,
        (walkArgs g lang look c sig es).flatMap evKey = (exprsIds es).map some) := by
    intro n
    induction n with
    | zero => exact ⟨fun _ h => absurd h (Nat.not_lt_zero _), fun _ h => absurd h (Nat.not_lt_zero _),
        fun _ h => absurd h (Nat.not_lt_zero _)⟩
    | succ n ih =>
      obtain ⟨ih1, ih2, ih3⟩ := ih
      refine ⟨?_, ?_, ?_⟩
      · intro e he c
        cases e with
        | use u => simp [walkExpr, exprIds, hl]
        | group es =>
          simp only [walkExpr, exprIds]
          exact ih2 es (by simp at he; omega) c
        | call u args =>
          simp only [walkExpr, exprIds, List.flatMap_cons, List.map_cons, hl, List.singleton_append]
          rw [ih3 args (by simp at he; omega)]
        | raw op args =>
          simp only [walkExpr, exprIds]
          exact ih3 args (by simp at he; omega) c _
      · intro es he c
        cases es with
        | nil => simp [walkExprs, exprsIds]
        | cons e es =>
          simp only [walkExprs, exprsIds, List.flatMap_append, List.map_append]
          rw [ih1 e (by simp at he; omega) c, ih2 es (by simp at he; omega) c]
      · intro es he c sig
        cases es with
        | nil => cases sig <;> simp [walkArgs, exprsIds]
        | cons e es =>
          have h1 := ih1 e (by simp at he; omega)
          have h3 := ih3 es (by simp at he; omega)
          cases sig with
          | none =>
            simp only [walkArgs, exprsIds, List.flatMap_append, List.map_append]
            rw [h1 c, h3 c none]
          | some ps =>
            cases ps with
            | nil =>
              simp only [walkArgs, exprsIds, List.flatMap_append, List.map_append]
              rw [skipExpr_key e, h3 c (some [])]
            | cons pc ps =>
              simp only [walkArgs, exprsIds, List.flatMap_append, List.map_append]
              rw [h1 pc, h3 c (some ps)]
  exact ⟨fun e c => (key (sizeOf e + 1)).1 e (Nat.lt_succ_self _) c,
    fun es c => (key (sizeOf es + 1)).2.1 es (Nat.lt_succ_self _) c,
    fun es c sig => (key (sizeOf es + 1)).2.2 es (Nat.lt_succ_self _) c sig⟩

theorem specUses_key (g : Globals) (lang : Option Lang) (env : Env) (hc : EnvClean env) (c : Option Name)
    (es : List Expr) :
    (walkExprs g lang (specUse g lang env) c es).flatMap evKey = (useIds es).map some :=
  (walk_key g lang (specUse g lang env) (fun u => specUse_key g lang env hc u)).2.1 es c

theorem declEvents_key (noun : Ns → Noun) : ∀ (ds : List (Ns × Nat × Name)) (seen : Ns → Name → Bool),
    (declEvents noun seen ds).flatMap evKey = (ds.map (·.2.1)).map some := by
  intro ds
  induction ds with
  | nil => intro seen; rfl
  | cons d ds ih =>
    intro seen
    obtain ⟨ns, id, n⟩ := d
    simp only [declEvents, List.flatMap_cons, List.flatMap_append, List.map_cons, evKey]
    rw [ih]
    split <;> simp [evKey]

theorem specParams_key : ∀ (ps : List (Nat × Name)) (env : Env) (here : Name → Bool), EnvClean env →
    (specParams env here ps).2.flatMap evKey = (ps.map (·.1)).map some ∧ EnvClean (specParams env here ps).1 := by
  intro ps
  induction ps with
  | nil => intro env here hc; exact ⟨rfl, hc⟩
  | cons p ps ih =>
    intro env here hc
    have hc' := envClean_update env hc p.2 .param p.1
    obtain ⟨h1, h2⟩ := ih _ (fun n => decide (n = p.2) || here n) hc'
    simp only [specParams, List.flatMap_cons, List.flatMap_append, List.map_cons, evKey]
    refine ⟨?_, h2⟩
    rw [h1]
    split <;> simp [evKey]

theorem specDeclVars_key (g : Globals) (lang : Option Lang) : ∀ (vars : List DeclVar) (env : Env)
    (here : Name → Bool), EnvClean env →
    (specDeclVars g lang env here vars).2.flatMap evKey =
        (vars.flatMap fun v => useIds v.init ++ [v.id]).map some ∧
      EnvClean (specDeclVars g lang env here vars).1.1 := by
  intro vars
  induction vars with
  | nil => intro env here hc; exact ⟨rfl, hc⟩
  | cons v vs ih =>
    intro env here hc
    have hc' := envClean_update env hc v.name .local v.id
    obtain ⟨h1, h2⟩ := ih _ (fun n => decide (n = v.name) || here n) hc'
    simp only [specDeclVars, List.flatMap_cons, List.flatMap_append, List.map_append, evKey]
    refine ⟨?_, h2⟩
    rw [h1, specUses_key g lang env hc none]
    split <;> simp [evKey]

def KeyStmtsOK (g : Globals) (ss : List Stmt) : Prop :=
  ∀ (lang : Option Lang) (env : Env) (here : Name → Bool), EnvClean env →
    (specStmts g lang env here ss).flatMap evKey = (stmtsIds ss).map some

def KeyStmtOK (g : Globals) (s : Stmt) : Prop :=
  ∀ (lang : Option Lang) (env : Env) (here : Name → Bool), EnvClean env →
    (specStmt g lang env here s).2.flatMap evKey = (stmtIds s).map some ∧
      EnvClean (specStmt g lang env here s).1.1

theorem specBlock_key (g : Globals) (b : List Stmt) (h : KeyStmtsOK g b) (lang : Option Lang) (env : Env)
    (hc : EnvClean env) : (specBlock g lang env b).flatMap evKey = (blockIds b).map some := by
  unfold specBlock blockIds
  simp only [List.flatMap_append, List.map_append]
  rw [declEvents_key, h lang _ _ (envClean_withItems env hc _)]

theorem flatMap_key_const (g : Globals) (env : Env) (hc : EnvClean env) (vars : List DeclVar) :
    (vars.flatMap fun v => walkExprs g none (specUse g none env) none v.init).flatMap evKey =
      (vars.flatMap fun v => useIds v.init).map some := by
  induction vars with
  | nil => rfl
  | cons v vs ih =>
    simp only [List.flatMap_cons, List.flatMap_append, List.map_append]
    rw [ih, specUses_key g none env hc none]

mutual
theorem specStmt_key (g : Globals) : ∀ (s : Stmt), KeyStmtOK g s
  | .expr us => by
    intro lang env here hc
    simp only [specStmt, stmtIds]
    exact ⟨specUses_key g lang env hc none us, hc⟩
  | .decl vars => by
    intro lang env here hc
    simp only [specStmt, stmtIds]
    exact specDeclVars_key g lang vars env here hc
  | .block b => by
    intro lang env here hc
    simp only [specStmt, stmtIds, ← specBlock_def]
    exact ⟨specBlock_key g b (specStmts_key g b) lang env hc, hc⟩
  | .func id name qual params body => by
    intro lang env here hc
    obtain ⟨h1, h2⟩ := specParams_key params (env.hide .function) (fun _ => false) (envClean_hide env hc _)
    simp only [specStmt, stmtIds, ← specBlock_def, List.flatMap_append, List.map_append]
    refine ⟨?_, hc⟩
    rw [h1, specBlock_key g body (specStmts_key g body) _ _ h2]
    simp [blockIds]
  | .const vars => by
    intro lang env here hc
    simp only [specStmt, stmtIds]
    exact ⟨flatMap_key_const g _ (envClean_hide env hc _) vars, hc⟩
  | .script b => by
    intro lang env here hc
    simp only [specStmt, stmtIds, ← specBlock_def]
    exact ⟨specBlock_key g b (specStmts_key g b) _ env hc, hc⟩
  | .funcDecl id name qual params => by
    intro lang env here hc
    simp only [specStmt, stmtIds]
    refine ⟨?_, hc⟩
    induction params with
    | nil => rfl
    | cons p ps ih => simp only [List.map_cons, List.flatMap_cons, evKey, List.singleton_append, ih]
theorem specStmts_key (g : Globals) : ∀ (ss : List Stmt), KeyStmtsOK g ss
  | [] => by intro lang env here _; simp [specStmts, stmtsIds]
  | s :: ss => by
    intro lang env here hc
    obtain ⟨h1, h2⟩ := specStmt_key g s lang env here hc
    have h3 := specStmts_key g ss lang _ (specStmt g lang env here s).1.2 h2
    simp only [specStmts, stmtsIds, List.flatMap_append, List.map_append]
    rw [h1, h3]
end

/-! ## The `Resolutions` table -/

theorem applyEvents_ok : ∀ (evs : List Event) (ids : List Nat) (t : Table),
    evs.flatMap evKey = ids.map some → ids.Nodup → (∀ i ∈ ids, t.lookup i = none) →
    ∃ t', applyEvents t evs = .ok t' := by
  intro evs
  induction evs with
  | nil => intro ids t _ _ _; exact ⟨t, rfl⟩
  | cons e es ih =>
    intro ids t hk hn ht
    cases e with
    | redef id noun =>
      simp only [List.flatMap_cons, evKey, List.nil_append] at hk
      simp only [applyEvents]
      exact ih ids t hk hn ht
    | panic s =>
      simp only [List.flatMap_cons, evKey, List.singleton_append] at hk
      cases ids with
      | nil => simp at hk
      | cons i is => simp at hk
    | err id e' =>
      simp only [List.flatMap_cons, evKey, List.singleton_append] at hk
      cases ids with
      | nil => simp at hk
      | cons i is =>
        simp only [List.map_cons, List.cons.injEq, Option.some.injEq] at hk
        simp only [applyEvents]
        exact ih is t hk.2 (List.nodup_cons.mp hn).2 (fun j hj => ht j (by simp [hj]))
    | skipped id =>
      simp only [List.flatMap_cons, evKey, List.singleton_append] at hk
      cases ids with
      | nil => simp at hk
      | cons i is =>
        simp only [List.map_cons, List.cons.injEq, Option.some.injEq] at hk
        simp only [applyEvents]
        exact ih is t hk.2 (List.nodup_cons.mp hn).2 (fun j hj => ht j (by simp [hj]))
    | selfRes id =>
      simp only [List.flatMap_cons, evKey, List.singleton_append] at hk
      cases ids with
      | nil => simp at hk
      | cons i is =>
        simp only [List.map_cons, List.cons.injEq, Option.some.injEq] at hk
        obtain ⟨hi, hk'⟩ := hk
        subst hi
        have hnd := List.nodup_cons.mp hn
        have hnone : t.lookup id = none := ht id (by simp)
        simp only [applyEvents, record, hnone]
        apply ih is _ hk' hnd.2
        intro j hj
        have hne : j ≠ id := fun e => hnd.1 (e ▸ hj)
        have : (j == id) = false := by simp [hne]
        simp only [List.lookup, this]
        exact ht j (by simp [hj])
    | res id d =>
      simp only [List.flatMap_cons, evKey, List.singleton_append] at hk
      cases ids with
      | nil => simp at hk
      | cons i is =>
        simp only [List.map_cons, List.cons.injEq, Option.some.injEq] at hk
        obtain ⟨hi, hk'⟩ := hk
        subst hi
        have hnd := List.nodup_cons.mp hn
        have hnone : t.lookup id = none := ht id (by simp)
        simp only [applyEvents, record, hnone]
        apply ih is _ hk' hnd.2
        intro j hj
        have hne : j ≠ id := fun e => hnd.1 (e ▸ hj)
        have : (j == id) = false := by simp [hne]
        simp only [List.lookup, this]
        exact ht j (by simp [hj])

/-- the table only changes at the ids of the primary events -/
theorem applyEvents_frame : ∀ (evs : List Event) (t t' : Table), applyEvents t evs = .ok t' →
    ∀ i, some i ∉ evs.flatMap evKey → t'.lookup i = t.lookup i := by
  intro evs
  induction evs with
  | nil => intro t t' h i _; simp only [applyEvents, Outcome.ok.injEq] at h; rw [h]
  | cons e es ih =>
    intro t t' h i hi
    simp only [List.flatMap_cons, List.mem_append, not_or] at hi
    cases e with
    | redef id noun => simp only [applyEvents] at h; exact ih t t' h i hi.2
    | err id e' => simp only [applyEvents] at h; exact ih t t' h i hi.2
    | skipped id => simp only [applyEvents] at h; exact ih t t' h i hi.2
    | panic s => simp [applyEvents] at h
    | selfRes id =>
      have hne : i ≠ id := fun e => hi.1 (by simp [evKey, e])
      simp only [applyEvents] at h
      cases hr : record t id (.decl id) true with
      | ok t1 =>
        rw [hr] at h
        rw [ih t1 t' h i hi.2]
        unfold record at hr
        have hb : (i == id) = false := by simp [hne]
        split at hr
        · simp only [Outcome.ok.injEq] at hr; subst hr; simp [List.lookup, hb]
        · split at hr
          · simp only [Outcome.ok.injEq] at hr; subst hr; simp [List.lookup, hb]
          · simp at hr
      | err c => rw [hr] at h; simp at h
      | panic c => rw [hr] at h; simp at h
    | res id d =>
      have hne : i ≠ id := fun e => hi.1 (by simp [evKey, e])
      simp only [applyEvents] at h
      cases hr : record t id d false with
      | ok t1 =>
        rw [hr] at h
        rw [ih t1 t' h i hi.2]
        unfold record at hr
        have hb : (i == id) = false := by simp [hne]
        split at hr
        · simp only [Outcome.ok.injEq] at hr; subst hr; simp [List.lookup, hb]
        · split at hr
          · simp only [Outcome.ok.injEq] at hr; subst hr; simp [List.lookup, hb]
          · simp at hr
      | err c => rw [hr] at h; simp at h
      | panic c => rw [hr] at h; simp at h

/-- what the table holds afterwards: the definition of the one resolution event of each
identifier; identifiers with an error stay unresolved -/
theorem applyEvents_table : ∀ (evs : List Event) (ids : List Nat) (t t' : Table),
    evs.flatMap evKey = ids.map some → ids.Nodup → (∀ i ∈ ids, t.lookup i = none) →
    applyEvents t evs = .ok t' →
    (∀ id d, Event.res id d ∈ evs → t'.lookup id = some d) ∧
    (∀ id, Event.selfRes id ∈ evs → t'.lookup id = some (.decl id)) ∧
    (∀ id e, Event.err id e ∈ evs → t'.lookup id = none) ∧
    (∀ id, Event.skipped id ∈ evs → t'.lookup id = none) := by
  intro evs
  induction evs with
  | nil => intro ids t t' _ _ _ _; simp
  | cons e es ih =>
    intro ids t t' hk hn ht h
    cases e with
    | redef id noun =>
      simp only [List.flatMap_cons, evKey, List.nil_append] at hk
      simp only [applyEvents] at h
      obtain ⟨h1, h2, h3, h4⟩ := ih ids t t' hk hn ht h
      simp only [List.mem_cons, reduceCtorEq, false_or]
      exact ⟨h1, h2, h3, h4⟩
    | panic s => simp [applyEvents] at h
    | err id e' =>
      simp only [List.flatMap_cons, evKey, List.singleton_append] at hk
      cases ids with
      | nil => simp at hk
      | cons i is =>
        simp only [List.map_cons, List.cons.injEq, Option.some.injEq] at hk
        obtain ⟨hi, hk'⟩ := hk
        subst hi
        have hnd := List.nodup_cons.mp hn
        simp only [applyEvents] at h
        obtain ⟨h1, h2, h3, h4⟩ := ih is t t' hk' hnd.2 (fun j hj => ht j (by simp [hj])) h
        have hfr := applyEvents_frame es t t' h id (by rw [hk']; simpa using hnd.1)
        simp only [List.mem_cons, reduceCtorEq, false_or, Event.err.injEq]
        refine ⟨h1, h2, ?_, h4⟩
        intro id' e'' hm
        rcases hm with ⟨rfl, _⟩ | hm
        · rw [hfr]; exact ht _ (by simp)
        · exact h3 id' e'' hm
    | skipped id =>
      simp only [List.flatMap_cons, evKey, List.singleton_append] at hk
      cases ids with
      | nil => simp at hk
      | cons i is =>
        simp only [List.map_cons, List.cons.injEq, Option.some.injEq] at hk
        obtain ⟨hi, hk'⟩ := hk
        subst hi
        have hnd := List.nodup_cons.mp hn
        simp only [applyEvents] at h
        obtain ⟨h1, h2, h3, h4⟩ := ih is t t' hk' hnd.2 (fun j hj => ht j (by simp [hj])) h
        have hfr := applyEvents_frame es t t' h id (by rw [hk']; simpa using hnd.1)
        simp only [List.mem_cons, reduceCtorEq, false_or, Event.skipped.injEq]
        refine ⟨h1, h2, h3, ?_⟩
        intro id' hm
        rcases hm with rfl | hm
        · rw [hfr]; exact ht _ (by simp)
        · exact h4 id' hm
    | selfRes id =>
      simp only [List.flatMap_cons, evKey, List.singleton_append] at hk
      cases ids with
      | nil => simp at hk
      | cons i is =>
        simp only [List.map_cons, List.cons.injEq, Option.some.injEq] at hk
        obtain ⟨hi, hk'⟩ := hk
        subst hi
        have hnd := List.nodup_cons.mp hn
        have hnone : t.lookup id = none := ht id (by simp)
        simp only [applyEvents, record, hnone] at h
        have ht1 : ∀ j ∈ is, List.lookup j ((id, Def.decl id) :: t) = none := by
          intro j hj
          have hne : j ≠ id := fun e => hnd.1 (e ▸ hj)
          have : (j == id) = false := by simp [hne]
          simp only [List.lookup, this]
          exact ht j (by simp [hj])
        obtain ⟨h1, h2, h3, h4⟩ := ih is _ t' hk' hnd.2 ht1 h
        have hfr := applyEvents_frame es _ t' h id (by rw [hk']; simpa using hnd.1)
        simp only [List.mem_cons, reduceCtorEq, false_or, Event.selfRes.injEq]
        refine ⟨h1, ?_, h3, h4⟩
        intro id' hm
        rcases hm with rfl | hm
        · rw [hfr]; simp [List.lookup]
        · exact h2 id' hm
    | res id d =>
      simp only [List.flatMap_cons, evKey, List.singleton_append] at hk
      cases ids with
      | nil => simp at hk
      | cons i is =>
        simp only [List.map_cons, List.cons.injEq, Option.some.injEq] at hk
        obtain ⟨hi, hk'⟩ := hk
        subst hi
        have hnd := List.nodup_cons.mp hn
        have hnone : t.lookup id = none := ht id (by simp)
        simp only [applyEvents, record, hnone] at h
        have ht1 : ∀ j ∈ is, List.lookup j ((id, d) :: t) = none := by
          intro j hj
          have hne : j ≠ id := fun e => hnd.1 (e ▸ hj)
          have : (j == id) = false := by simp [hne]
          simp only [List.lookup, this]
          exact ht j (by simp [hj])
        obtain ⟨h1, h2, h3, h4⟩ := ih is _ t' hk' hnd.2 ht1 h
        have hfr := applyEvents_frame es _ t' h id (by rw [hk']; simpa using hnd.1)
        simp only [List.mem_cons, reduceCtorEq, false_or, Event.res.injEq]
        refine ⟨?_, h2, h3, h4⟩
        intro id' d' hm
        rcases hm with ⟨rfl, rfl⟩ | hm
        · rw [hfr]; simp [List.lookup]
        · exact h1 id' d' hm

end TruthModel.Scope
