import TruthModel.Lemmas.Blocks
namespace TruthModel.Blocks

/-! ### the times of the desugared code are the ones the time pass computes on the flat list -/

def flatEnd (lt : Int) : List FStmt → Int
  | [] => lt
  | f :: fs => flatEnd (f.time lt) fs

/-- `code` is what the time pass makes of its own statements from `lt`, ending at `tEnd` -/
def Timed (lt : Int) (code : List AF) (tEnd : Int) : Prop :=
  annot lt (strip code) = code ∧ flatEnd lt (strip code) = tEnd

theorem Timed.nil (lt : Int) : Timed lt [] lt := by simp [Timed, strip, annot, flatEnd]

theorem Timed.cons {lt t : Int} {f : FStmt} {rest : List AF} {tEnd : Int} (hf : f.time lt = t)
    (h : Timed t rest tEnd) : Timed lt ((t, f) :: rest) tEnd := by
  obtain ⟨h1, h2⟩ := h
  subst hf
  simp only [Timed, strip, List.map_cons, annot, flatEnd] at *
  exact ⟨by rw [h1], h2⟩

theorem Timed.append {lt t1 t2 : Int} {a b : List AF} (ha : Timed lt a t1) (hb : Timed t1 b t2) :
    Timed lt (a ++ b) t2 := by
  induction a generalizing lt with
  | nil =>
    have : lt = t1 := by simpa [Timed, strip, flatEnd] using ha.2
    subst this; simpa using hb
  | cons x a ih =>
    obtain ⟨t, f⟩ := x
    have h1 := ha.1
    simp only [strip, List.map_cons, annot] at h1
    have hft : f.time lt = t := by
      have := congrArg (fun l => l.head?.map (·.1)) h1
      simpa using this
    have ha' : Timed t a t1 := by
      refine ⟨?_, ?_⟩
      · have := congrArg List.tail h1
        simpa [hft, strip] using this
      · have := ha.2
        simpa [strip, flatEnd, hft] using this
    exact Timed.cons hft (ih ha')

theorem timed_bookend {lt tE : Int} {r : List AF × Nat} (h : Timed lt r.1 tE) : Timed lt (bookend lt tE r).1 tE := by
  unfold bookend
  exact Timed.cons rfl (Timed.append h (Timed.cons rfl (Timed.nil _)))

theorem timed_zeroTest (lt v l c) : Timed lt (zeroTest lt v l c) lt := by
  unfold zeroTest; split
  · exact Timed.cons rfl (Timed.nil _)
  · exact Timed.nil _

theorem timed_gotoEnd (t ve ch) : Timed t (gotoEnd t ve ch) t := by
  cases ch <;> first | exact Timed.nil _ | exact Timed.cons rfl (Timed.nil _)

mutual
theorem timedS (k : CJ) : ∀ (brk n : Nat) (lt : Int) (s : Stmt), Timed lt (desugarS k brk n lt s).1 (endS lt s)
  | brk, n, lt, .call op args => Timed.cons rfl (Timed.nil _)
  | brk, n, lt, .assign r e => Timed.cons rfl (Timed.nil _)
  | brk, n, lt, .tabs t => Timed.cons rfl (Timed.nil _)
  | brk, n, lt, .trel d => Timed.cons rfl (Timed.nil _)
  | brk, n, lt, .brk => Timed.cons rfl (Timed.nil _)
  | brk, n, lt, .cbrk i c => Timed.cons rfl (Timed.nil _)
  | brk, n, lt, .block b => by
    simp only [desugarS, endS]; exact timed_bookend (timedL k brk n lt b)
  | brk, n, lt, .cond ch => by
    simp only [desugarS, endS]
    exact Timed.append (timedC k brk n (n+1) lt ch) (Timed.cons rfl (Timed.nil _))
  | brk, n, lt, .loop b => by
    simp only [desugarS, endS]
    exact Timed.append (Timed.append (Timed.cons rfl (Timed.nil _)) (timed_bookend (timedL k n (n+2) lt b)))
      (Timed.cons rfl (Timed.cons rfl (Timed.nil _)))
  | brk, n, lt, .doWhile c b => by
    simp only [desugarS, endS]
    exact Timed.append (Timed.append (Timed.cons rfl (Timed.nil _)) (timed_bookend (timedL k n (n+2) lt b)))
      (Timed.cons rfl (Timed.cons rfl (Timed.nil _)))
  | brk, n, lt, .while_ c b => by
    simp only [desugarS, endS]
    exact Timed.append (Timed.append (Timed.cons rfl (Timed.cons rfl (Timed.nil _))) (timed_bookend (timedL k n (n+3) lt b)))
      (Timed.cons rfl (Timed.cons rfl (Timed.cons rfl (Timed.nil _))))
  | brk, n, lt, .times none c b => by
    simp only [desugarS, endS]
    exact Timed.append (Timed.append (Timed.append (Timed.append (Timed.cons rfl (Timed.cons rfl (Timed.nil _))) (timed_zeroTest _ _ _ _))
      (Timed.cons rfl (Timed.nil _))) (timed_bookend (timedL k n (n+4) lt b)))
      (Timed.cons rfl (Timed.cons rfl (Timed.cons rfl (Timed.cons rfl (Timed.nil _)))))
  | brk, n, lt, .times (some x) c b => by
    simp only [desugarS, endS]
    exact Timed.append (Timed.append (Timed.append (Timed.append (Timed.cons rfl (Timed.nil _)) (timed_zeroTest _ _ _ _))
      (Timed.cons rfl (Timed.nil _))) (timed_bookend (timedL k n (n+3) lt b)))
      (Timed.cons rfl (Timed.cons rfl (Timed.cons rfl (Timed.nil _))))
theorem timedL (k : CJ) : ∀ (brk n : Nat) (lt : Int) (ss : List Stmt), Timed lt (desugarL k brk n lt ss).1 (endL lt ss)
  | brk, n, lt, [] => by simp only [desugarL, endL]; exact Timed.nil _
  | brk, n, lt, s :: ss => by
    simp only [desugarL, endL]
    exact Timed.append (timedS k brk n lt s) (timedL k brk _ (endS lt s) ss)
theorem timedC (k : CJ) : ∀ (brk ve n : Nat) (lt : Int) (ch : Chain), Timed lt (desugarC k brk ve n lt ch).1 (endC lt ch)
  | brk, ve, n, lt, .none => by simp only [desugarC, endC]; exact Timed.nil _
  | brk, ve, n, lt, .els b => by simp only [desugarC, endC]; exact timed_bookend (timedL k brk n lt b)
  | brk, ve, n, lt, .elif i c thn rest => by
    simp only [desugarC, endC]
    exact Timed.append (Timed.append (Timed.append (Timed.append (Timed.cons rfl (Timed.nil _)) (timed_bookend (timedL k brk (n+1) lt thn)))
      (timed_gotoEnd _ _ _)) (Timed.cons rfl (Timed.nil _))) (timedC k brk ve _ (endL lt thn) rest)
end

/-- Re-running the time pass (`time_and_difficulty::run`) on the flat statement list that
`desugar` produces assigns exactly the times that `desugarA` carries. -/
theorem annot_desugar (k : CJ) (prog : List Stmt) : annot 0 (desugar k prog) = desugarA k prog :=
  (timed_bookend (timedL k 0 0 0 prog)).1

/-! ### generated labels are pairwise distinct -/

theorem nodup_append_range {a b : List Nat} {n m m' : Nat} (ha : a.Nodup) (hb : b.Nodup)
    (hra : ∀ l ∈ a, n ≤ l ∧ l < m) (hrb : ∀ l ∈ b, m ≤ l ∧ l < m') : (a ++ b).Nodup := by
  rw [List.nodup_append]
  refine ⟨ha, hb, fun x hx y hy => ?_⟩
  have := hra x hx; have := hrb y hy; omega

mutual
theorem nodupS (k : CJ) : ∀ (brk n : Nat) (lt : Int) (s : Stmt), (labelsOf (desugarS k brk n lt s).1).Nodup
  | brk, n, lt, .call op args => by simp [desugarS]
  | brk, n, lt, .assign r e => by simp [desugarS]
  | brk, n, lt, .tabs t => by simp [desugarS]
  | brk, n, lt, .trel d => by simp [desugarS]
  | brk, n, lt, .brk => by simp [desugarS]
  | brk, n, lt, .cbrk i c => by simp [desugarS]
  | brk, n, lt, .block b => by simpa [desugarS] using nodupL k brk n lt b
  | brk, n, lt, .cond ch => by
    have h := nodupC k brk n (n+1) lt ch
    have hr := rangeC k brk n (n+1) lt ch
    simp only [desugarS, labelsOf_append, labelsOf_cons_label, labelsOf_nil]
    rw [List.nodup_append]
    refine ⟨h, by simp, fun x hx y hy => ?_⟩
    have := hr.2 x hx; simp at hy; omega
  | brk, n, lt, .loop b => by
    have h := nodupL k n (n+2) lt b
    have hr := rangeL k n (n+2) lt b
    simp [desugarS, List.nodup_append, h]
    and_intros
    all_goals first
      | omega
      | (intro hm; have := hr.2 _ hm; omega)
      | (intro a ha; have := hr.2 _ ha; omega)
  | brk, n, lt, .doWhile c b => by
    have h := nodupL k n (n+2) lt b
    have hr := rangeL k n (n+2) lt b
    simp [desugarS, List.nodup_append, h]
    and_intros
    all_goals first
      | omega
      | (intro hm; have := hr.2 _ hm; omega)
      | (intro a ha; have := hr.2 _ ha; omega)
  | brk, n, lt, .while_ c b => by
    have h := nodupL k n (n+3) lt b
    have hr := rangeL k n (n+3) lt b
    simp [desugarS, List.nodup_append, h]
    and_intros
    all_goals first
      | omega
      | (intro hm; have := hr.2 _ hm; omega)
      | (intro a ha; have := hr.2 _ ha; omega)
  | brk, n, lt, .times none c b => by
    have h := nodupL k n (n+4) lt b
    have hr := rangeL k n (n+4) lt b
    simp [desugarS, List.nodup_append, h]
    and_intros
    all_goals first
      | omega
      | (intro hm; have := hr.2 _ hm; omega)
      | (intro a ha; have := hr.2 _ ha; omega)
  | brk, n, lt, .times (some x) c b => by
    have h := nodupL k n (n+3) lt b
    have hr := rangeL k n (n+3) lt b
    simp [desugarS, List.nodup_append, h]
    and_intros
    all_goals first
      | omega
      | (intro hm; have := hr.2 _ hm; omega)
      | (intro a ha; have := hr.2 _ ha; omega)
theorem nodupL (k : CJ) : ∀ (brk n : Nat) (lt : Int) (ss : List Stmt), (labelsOf (desugarL k brk n lt ss).1).Nodup
  | brk, n, lt, [] => by simp [desugarL]
  | brk, n, lt, s :: ss => by
    simp only [desugarL, labelsOf_append]
    exact nodup_append_range (nodupS k brk n lt s) (nodupL k brk _ (endS lt s) ss) (rangeS k brk n lt s).2 (rangeL k brk _ (endS lt s) ss).2
theorem nodupC (k : CJ) : ∀ (brk ve n : Nat) (lt : Int) (ch : Chain), (labelsOf (desugarC k brk ve n lt ch).1).Nodup
  | brk, ve, n, lt, .none => by simp [desugarC]
  | brk, ve, n, lt, .els b => by simpa [desugarC] using nodupL k brk n lt b
  | brk, ve, n, lt, .elif i c thn rest => by
    have h1 := nodupL k brk (n+1) lt thn
    have h2 := nodupC k brk ve (desugarL k brk (n+1) lt thn).2 (endL lt thn) rest
    have hr1 := rangeL k brk (n+1) lt thn
    have hr2 := rangeC k brk ve (desugarL k brk (n+1) lt thn).2 (endL lt thn) rest
    simp [desugarC, List.nodup_append, h1, h2]
    and_intros
    all_goals first
      | omega
      | (intro hm; have := hr2.2 _ hm; omega)
      | (intro a ha; have := hr1.2 _ ha; and_intros <;> first | omega | (intro hb; have := hr2.2 _ hb; omega) | (intro b hb; have := hr2.2 _ hb; omega))
end

/-- every label is defined at most once in the desugared program -/
theorem desugarA_labels_nodup (k : CJ) (prog : List Stmt) : (labelsOf (desugarA k prog)).Nodup := by
  simpa [desugarA] using nodupL k 0 0 0 prog

/-! ### flattening keeps every call and time label, in textual order -/

def FStmt.isCallOrTime : FStmt → Bool
  | .call _ _ => true
  | .tabs _ => true
  | .trel _ => true
  | _ => false

mutual
def keepS : Stmt → List FStmt
  | .call op args => [.call op args]
  | .tabs t => [.tabs t]
  | .trel d => [.trel d]
  | .block b => keepL b
  | .cond ch => keepC ch
  | .loop b => keepL b
  | .while_ _ b => keepL b
  | .doWhile _ b => keepL b
  | .times _ _ b => keepL b
  | _ => []
def keepL : List Stmt → List FStmt
  | [] => []
  | s :: ss => keepS s ++ keepL ss
def keepC : Chain → List FStmt
  | .none => []
  | .els b => keepL b
  | .elif _ _ thn rest => keepL thn ++ keepC rest
end

def kept (p : List AF) : List FStmt := (strip p).filter FStmt.isCallOrTime

@[simp] theorem kept_nil : kept [] = [] := rfl
@[simp] theorem kept_append (a b : List AF) : kept (a ++ b) = kept a ++ kept b := by simp [kept, strip]
@[simp] theorem kept_cons (a : AF) (p : List AF) :
    kept (a :: p) = (if a.2.isCallOrTime then [a.2] else []) ++ kept p := by
  simp [kept, strip, List.filter_cons]; split <;> simp
@[simp] theorem kept_bookend (lt tE : Int) (r : List AF × Nat) : kept (bookend lt tE r).1 = kept r.1 := by
  simp [bookend, FStmt.isCallOrTime]
@[simp] theorem kept_zeroTest (lt v l c) : kept (zeroTest lt v l c) = [] := by
  unfold zeroTest; split <;> simp [FStmt.isCallOrTime]
@[simp] theorem kept_gotoEnd (t ve ch) : kept (gotoEnd t ve ch) = [] := by
  cases ch <;> simp [gotoEnd, FStmt.isCallOrTime]

mutual
theorem keptS (k : CJ) : ∀ (brk n : Nat) (lt : Int) (s : Stmt), kept (desugarS k brk n lt s).1 = keepS s
  | brk, n, lt, .call op args => by simp [desugarS, keepS, FStmt.isCallOrTime]
  | brk, n, lt, .assign r e => by simp [desugarS, keepS, FStmt.isCallOrTime]
  | brk, n, lt, .tabs t => by simp [desugarS, keepS, FStmt.isCallOrTime]
  | brk, n, lt, .trel d => by simp [desugarS, keepS, FStmt.isCallOrTime]
  | brk, n, lt, .brk => by simp [desugarS, keepS, FStmt.isCallOrTime]
  | brk, n, lt, .cbrk i c => by simp [desugarS, keepS, FStmt.isCallOrTime]
  | brk, n, lt, .block b => by simp [desugarS, keepS, keptL k brk n lt b]
  | brk, n, lt, .cond ch => by simp [desugarS, keepS, keptC k brk n (n+1) lt ch, FStmt.isCallOrTime]
  | brk, n, lt, .loop b => by simp [desugarS, keepS, keptL k n (n+2) lt b, FStmt.isCallOrTime]
  | brk, n, lt, .doWhile c b => by simp [desugarS, keepS, keptL k n (n+2) lt b, FStmt.isCallOrTime]
  | brk, n, lt, .while_ c b => by simp [desugarS, keepS, keptL k n (n+3) lt b, FStmt.isCallOrTime]
  | brk, n, lt, .times none c b => by simp [desugarS, keepS, keptL k n (n+4) lt b, FStmt.isCallOrTime]
  | brk, n, lt, .times (some x) c b => by simp [desugarS, keepS, keptL k n (n+3) lt b, FStmt.isCallOrTime]
theorem keptL (k : CJ) : ∀ (brk n : Nat) (lt : Int) (ss : List Stmt), kept (desugarL k brk n lt ss).1 = keepL ss
  | brk, n, lt, [] => by simp [desugarL, keepL]
  | brk, n, lt, s :: ss => by simp [desugarL, keepL, keptS k brk n lt s, keptL k brk _ (endS lt s) ss]
theorem keptC (k : CJ) : ∀ (brk ve n : Nat) (lt : Int) (ch : Chain), kept (desugarC k brk ve n lt ch).1 = keepC ch
  | brk, ve, n, lt, .none => by simp [desugarC, keepC]
  | brk, ve, n, lt, .els b => by simp [desugarC, keepC, keptL k brk n lt b]
  | brk, ve, n, lt, .elif i c thn rest => by
    simp [desugarC, keepC, keptL k brk (n+1) lt thn, keptC k brk ve _ (endL lt thn) rest, FStmt.isCallOrTime]
end

theorem desugar_keeps (k : CJ) (prog : List Stmt) : (desugar k prog).filter FStmt.isCallOrTime = keepL prog := by
  have h := keptL k 0 0 0 prog
  have h2 := kept_bookend 0 (endL 0 prog) (desugarL k 0 0 0 prog)
  rw [h] at h2
  exact h2

end TruthModel.Blocks
