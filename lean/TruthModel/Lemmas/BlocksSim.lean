import TruthModel.Lemmas.Blocks
/-
C06: the simulation.  `Sim k cfg st r` is the motive of the induction on `Big (some k) cfg st r`:
a time part (`SimT`: the VM's time equals the lexical time at block ends) and an execution part
(`SimE`: in every program context `P = pre ++ code ++ post` whose `pre` has no label in the
gensym interval of `code`, the flat machine runs `code` to the same state, or to the `break`
target for a `brk` outcome, touching only temporaries of that interval).
-/
namespace TruthModel.Blocks

/-! ### frames of temporaries -/

def Frame (n n' : Nat) (tm tm' : Nat → Int32) : Prop := ∀ j, (j < n ∨ n' ≤ j) → tm' j = tm j

theorem Frame.refl (n n' : Nat) (tm : Nat → Int32) : Frame n n' tm tm := fun _ _ => rfl

theorem Frame.mono {a a' n n' : Nat} {tm tm' : Nat → Int32} (h : Frame a a' tm tm') (h1 : n ≤ a) (h2 : a' ≤ n') :
    Frame n n' tm tm' := fun j hj => h j (by omega)

theorem Frame.trans {n n' : Nat} {tm tm1 tm2 : Nat → Int32} (h1 : Frame n n' tm tm1) (h2 : Frame n n' tm1 tm2) :
    Frame n n' tm tm2 := fun j hj => (h2 j hj).trans (h1 j hj)

/-! ### program contexts -/

structure Ctx (P pre code post : List AF) (n n' : Nat) : Prop where
  split : P = pre ++ (code ++ post)
  out : ∀ l ∈ labelsOf pre, l < n ∨ n' ≤ l

theorem Ctx.sub {P pre code post : List AF} {n n' : Nat} (h : Ctx P pre code post n n')
    {A B C : List AF} {m m' : Nat} (hc : code = A ++ (B ++ C))
    (hA : ∀ l ∈ labelsOf A, l < m ∨ m' ≤ l) (h1 : n ≤ m) (h2 : m' ≤ n') :
    Ctx P (pre ++ A) B (C ++ post) m m' := by
  refine ⟨by rw [h.split, hc]; simp [List.append_assoc], ?_⟩
  intro l hl
  simp at hl
  rcases hl with hl | hl
  · have := h.out l hl; omega
  · exact hA l hl

theorem Ctx.head {P pre code post : List AF} {n n' : Nat} (h : Ctx P pre code post n n')
    {B C : List AF} {m m' : Nat} (hc : code = B ++ C) (h1 : n ≤ m) (h2 : m' ≤ n') :
    Ctx P pre B (C ++ post) m m' := by
  refine ⟨by rw [h.split, hc]; simp [List.append_assoc], ?_⟩
  intro l hl
  have := h.out l hl; omega

theorem Ctx.tail {P pre code post : List AF} {n n' : Nat} (h : Ctx P pre code post n n')
    {A B : List AF} {m m' : Nat} (hc : code = A ++ B)
    (hA : ∀ l ∈ labelsOf A, l < m ∨ m' ≤ l) (h1 : n ≤ m) (h2 : m' ≤ n') :
    Ctx P (pre ++ A) B post m m' := by
  have := h.sub (A := A) (B := B) (C := []) (m := m) (m' := m') (by simpa using hc) hA h1 h2
  simpa using this

theorem Ctx.weaken {P pre code post : List AF} {n n' m m' : Nat} (h : Ctx P pre code post n n')
    (h1 : n ≤ m) (h2 : m' ≤ n') : Ctx P pre code post m m' :=
  ⟨h.split, fun l hl => by have := h.out l hl; omega⟩

/-- jump to a label of the gensym interval of `code`, located by an explicit split of `code` -/
theorem Ctx.jump {P pre code post : List AF} {n n' : Nat} (h : Ctx P pre code post n n')
    {A Y : List AF} {t : Int} {l : Nat} (hc : code = A ++ (t, .label l) :: Y) (hl : n ≤ l ∧ l < n')
    (hA : l ∉ labelsOf A) (fs : FS) :
    jumpS P l fs = some ((t, .label l) :: (Y ++ post), fs.setTime t) := by
  apply jumpS_split (X := pre ++ A)
  · rw [h.split, hc]; simp [List.append_assoc]
  · simp
    refine ⟨fun hm => ?_, hA⟩
    have := h.out l hm; omega

/-- jump to a label outside the gensym interval that `pre` does not contain either -/
theorem Ctx.jump' {P pre code post : List AF} {n n' : Nat} (h : Ctx P pre code post n n')
    {A Y : List AF} {t : Int} {l : Nat} (hc : code = A ++ (t, .label l) :: Y) (hl : l ∉ labelsOf pre)
    (hA : l ∉ labelsOf A) (fs : FS) :
    jumpS P l fs = some ((t, .label l) :: (Y ++ post), fs.setTime t) := by
  apply jumpS_split (X := pre ++ A)
  · rw [h.split, hc]; simp [List.append_assoc]
  · simp; exact ⟨hl, hA⟩

/-! ### what the flat machine must do for an outcome -/

def Reach (P : List AF) (brk n n' : Nat) (c post : List AF) (fs : FS) : Out → Prop
  | .done st' => ∃ tm', Frame n n' fs.tmps tm' ∧ ExecS P c fs post ⟨st', tm'⟩
  | .brk st' => ∃ tm', Frame n n' fs.tmps tm' ∧
      ∀ J fsJ, jumpS P brk ⟨st', tm'⟩ = some (J, fsJ) → ExecS P c fs J fsJ

theorem Reach.prefix {P : List AF} {brk n n' : Nat} {c0 c post : List AF} {fs0 fs : FS} {r : Out}
    (he : ExecS P c0 fs0 c fs) (hf : Frame n n' fs0.tmps fs.tmps) (h : Reach P brk n n' c post fs r) :
    Reach P brk n n' c0 post fs0 r := by
  cases r with
  | done st' => obtain ⟨tm', hf', hx⟩ := h; exact ⟨tm', hf.trans hf', he.trans hx⟩
  | brk st' => obtain ⟨tm', hf', hx⟩ := h; exact ⟨tm', hf.trans hf', fun J fsJ hj => he.trans (hx J fsJ hj)⟩

/-- prefix steps that leave the temporaries alone -/
theorem Reach.prefix' {P : List AF} {brk n n' : Nat} {c0 c post : List AF} {fs0 : FS} {st : St} {r : Out}
    (he : ExecS P c0 fs0 c ⟨st, fs0.tmps⟩) (h : Reach P brk n n' c post ⟨st, fs0.tmps⟩ r) :
    Reach P brk n n' c0 post fs0 r := Reach.prefix he (Frame.refl _ _ _) h

theorem Reach.mono {P : List AF} {brk a a' n n' : Nat} {c post : List AF} {fs : FS} {r : Out}
    (h : Reach P brk a a' c post fs r) (h1 : n ≤ a) (h2 : a' ≤ n') : Reach P brk n n' c post fs r := by
  cases r with
  | done st' => obtain ⟨tm', hf, hx⟩ := h; exact ⟨tm', hf.mono h1 h2, hx⟩
  | brk st' => obtain ⟨tm', hf, hx⟩ := h; exact ⟨tm', hf.mono h1 h2, hx⟩

/-- first part runs to `mid` normally, then the rest -/
theorem Reach.seq {P : List AF} {brk1 brk a a' b b' n n' : Nat} {c mid post : List AF} {fs : FS} {st1 : St} {r : Out}
    (h1 : Reach P brk1 a a' c mid fs (.done st1))
    (h2 : ∀ tm1, Frame a a' fs.tmps tm1 → Reach P brk b b' mid post ⟨st1, tm1⟩ r)
    (ha : n ≤ a) (ha' : a' ≤ n') (hb : n ≤ b) (hb' : b' ≤ n') : Reach P brk n n' c post fs r := by
  obtain ⟨tm1, hf1, hx1⟩ := h1
  exact Reach.prefix hx1 (hf1.mono ha ha') ((h2 tm1 hf1).mono hb hb')

/-- a `break` in the first part is a `break` of the whole -/
theorem Reach.brk_of {P : List AF} {brk a a' n n' : Nat} {c mid post : List AF} {fs : FS} {st1 : St}
    (h1 : Reach P brk a a' c mid fs (.brk st1)) (ha : n ≤ a) (ha' : a' ≤ n') :
    Reach P brk n n' c post fs (.brk st1) := by
  obtain ⟨tm1, hf1, hx1⟩ := h1
  exact ⟨tm1, hf1.mono ha ha', hx1⟩

/-! ### loop layouts -/

def Stmt.isLoop : Stmt → Bool
  | .loop _ => true
  | .while_ _ _ => true
  | .doWhile _ _ => true
  | .times _ _ _ => true
  | _ => false

structure Lay where
  head : List AF     -- before `label lp`
  lp : Nat
  nb : Nat           -- gensym counter at the start of the body
  jmp : FStmt        -- the back jump
  tail : List AF     -- between the back jump and `label loop_end`

def lay (k : CJ) (n : Nat) (lt tE : Int) : Stmt → Lay
  | .loop _ => ⟨[], n + 1, n + 2, .goto (n + 1), []⟩
  | .doWhile c _ => ⟨[], n + 1, n + 2, .cjmp true c (n + 1), []⟩
  | .while_ c _ => ⟨[(lt, .cjmp false c (n + 1))], n + 2, n + 3, .cjmp true c (n + 2), [(tE, .label (n + 1))]⟩
  | .times none count _ =>
    ⟨[(lt, .decl (n + 1)), (lt, .assign (.tmp (n + 1)) count)] ++ zeroTest lt (.tmp (n + 1)) (n + 2) count,
      n + 3, n + 4, .cntjmp k (.tmp (n + 1)) (n + 3), [(tE, .label (n + 2)), (tE, .scopeEnd (n + 1))]⟩
  | .times (some x) count _ =>
    ⟨[(lt, .assign (.reg x) count)] ++ zeroTest lt (.reg x) (n + 1) count,
      n + 2, n + 3, .cntjmp k (.reg x) (n + 2), [(tE, .label (n + 1))]⟩
  | _ => ⟨[], 0, 0, .nop, []⟩

/-- the code of a loop statement in terms of its layout -/
theorem desugarS_loop (k : CJ) (brk n : Nat) (lt : Int) (s : Stmt) (h : s.isLoop = true) :
    desugarS k brk n lt s =
      ((lay k n lt (endL lt s.body) s).head ++ (lt, .label (lay k n lt (endL lt s.body) s).lp) ::
        ((desugarB k n (lay k n lt (endL lt s.body) s).nb lt s.body).1 ++
          (endL lt s.body, (lay k n lt (endL lt s.body) s).jmp) ::
            ((lay k n lt (endL lt s.body) s).tail ++ [(endL lt s.body, .label n)])),
       (desugarB k n (lay k n lt (endL lt s.body) s).nb lt s.body).2) := by
  cases s with
  | times clob count b => cases clob <;> simp [desugarS, lay, Stmt.body, desugarB, List.append_assoc]
  | _ => simp_all [desugarS, lay, Stmt.body, desugarB, Stmt.isLoop]

/-! ### positions inside the code of a loop statement `s` followed by `ss` -/

section positions
variable (k : CJ) (brk n : Nat) (lt : Int) (s : Stmt) (ss : List Stmt) (post : List AF)

/-- code of the statements after the loop -/
def restCode : List AF × Nat :=
  desugarL k brk (desugarB k n (lay k n lt (endL lt s.body) s).nb lt s.body).2 (endL lt s.body) ss
/-- at `label loop_end` -/
def lePos : List AF := (endL lt s.body, .label n) :: ((restCode k brk n lt s ss).1 ++ post)
def tailPos : List AF := (lay k n lt (endL lt s.body) s).tail ++ lePos k brk n lt s ss post
/-- at the back jump -/
def jmpPos : List AF := (endL lt s.body, (lay k n lt (endL lt s.body) s).jmp) :: tailPos k brk n lt s ss post
/-- at the first bookend of the body -/
def bodyPos : List AF := (desugarB k n (lay k n lt (endL lt s.body) s).nb lt s.body).1 ++ jmpPos k brk n lt s ss post
def lpPos : List AF := (lt, .label (lay k n lt (endL lt s.body) s).lp) :: bodyPos k brk n lt s ss post

theorem loop_code (h : s.isLoop = true) :
    (desugarL k brk n lt (s :: ss)).1 ++ post = (lay k n lt (endL lt s.body) s).head ++ lpPos k brk n lt s ss post := by
  have he : endS lt s = endL lt s.body := by cases s <;> simp_all [Stmt.isLoop, endS, Stmt.body]
  simp only [desugarL, desugarS_loop k brk n lt s h, he, lpPos, bodyPos, jmpPos, tailPos, lePos, restCode]
  simp [List.append_assoc]

theorem loop_snd (h : s.isLoop = true) :
    (desugarL k brk n lt (s :: ss)).2 = (restCode k brk n lt s ss).2 := by
  have he : endS lt s = endL lt s.body := by cases s <;> simp_all [Stmt.isLoop, endS, Stmt.body]
  simp only [desugarL, desugarS_loop k brk n lt s h, he, restCode]

end positions

/-! ### the motive -/

def SimT : Cfg → St → Out → Prop
  | .seq lt ss, st, .done st' => st.time ≤ lt → MonoL lt ss → st'.time ≤ endL lt ss
  | .blk lt b, st, .done st' => st.time ≤ lt → MonoL lt b → st'.time = endL lt b
  | .chain lt ch ss, _, .done st' => MonoC lt ch → MonoL (endC lt ch) ss → st'.time ≤ endL (endC lt ch) ss
  | .iter lt s _ ss, st, .done st' => st.time ≤ lt → MonoL lt s.body → MonoL (endL lt s.body) ss →
      st'.time ≤ endL (endL lt s.body) ss
  | .again lt s _ ss, st, .done st' => st.time ≤ endL lt s.body → MonoL lt s.body → MonoL (endL lt s.body) ss →
      st'.time ≤ endL (endL lt s.body) ss
  | _, _, .brk _ => True

/-- the hidden counter of `times(n)` lives in the temporary `count<n+1>` -/
def CounterOK (s : Stmt) (n : Nat) (j : Int32) (tm : Nat → Int32) : Prop :=
  match s with
  | .times none _ _ => tm (n + 1) = j ∧ 0 < j
  | _ => True

def SimE (k : CJ) : Cfg → St → Out → Prop
  | .seq lt ss, st, r => ∀ (brk n : Nat) (pre post P : List AF) (tm : Nat → Int32),
      Ctx P pre (desugarL k brk n lt ss).1 post n (desugarL k brk n lt ss).2 → st.time ≤ lt → MonoL lt ss →
      Reach P brk n (desugarL k brk n lt ss).2 ((desugarL k brk n lt ss).1 ++ post) post ⟨st, tm⟩ r
  | .blk lt b, st, r => ∀ (brk n : Nat) (pre post P : List AF) (tm : Nat → Int32) (stf : St),
      Ctx P pre (desugarB k brk n lt b).1 post n (desugarB k brk n lt b).2 → st.time ≤ lt → MonoL lt b →
      wait lt stf = wait lt st →
      Reach P brk n (desugarB k brk n lt b).2 ((desugarB k brk n lt b).1 ++ post) post ⟨stf, tm⟩ r
  | .chain lt ch ss, st, r => ∀ (brk ve n : Nat) (pre post P : List AF) (tm : Nat → Int32) (stf : St),
      Ctx P pre ((desugarC k brk ve n lt ch).1 ++ (endC lt ch, .label ve) ::
          (desugarL k brk (desugarC k brk ve n lt ch).2 (endC lt ch) ss).1) post n
        (desugarL k brk (desugarC k brk ve n lt ch).2 (endC lt ch) ss).2 →
      ve ∉ labelsOf pre → ve < n → MonoC lt ch → MonoL (endC lt ch) ss →
      wait lt stf = some (st.setTime lt) →
      Reach P brk n (desugarL k brk (desugarC k brk ve n lt ch).2 (endC lt ch) ss).2
        ((desugarC k brk ve n lt ch).1 ++ (endC lt ch, .label ve) ::
          ((desugarL k brk (desugarC k brk ve n lt ch).2 (endC lt ch) ss).1 ++ post)) post ⟨stf, tm⟩ r
  | .iter lt s j ss, st, r => s.isLoop = true → ∀ (brk n : Nat) (pre post P : List AF) (tm : Nat → Int32),
      Ctx P pre (desugarL k brk n lt (s :: ss)).1 post n (desugarL k brk n lt (s :: ss)).2 →
      st.time ≤ lt → MonoL lt s.body → MonoL (endL lt s.body) ss → CounterOK s n j tm →
      Reach P brk n (desugarL k brk n lt (s :: ss)).2 (bodyPos k brk n lt s ss post) post ⟨st, tm⟩ r
  | .again lt s j ss, st, r => s.isLoop = true → ∀ (brk n : Nat) (pre post P : List AF) (tm : Nat → Int32),
      Ctx P pre (desugarL k brk n lt (s :: ss)).1 post n (desugarL k brk n lt (s :: ss)).2 →
      st.time = endL lt s.body → MonoL lt s.body → MonoL (endL lt s.body) ss → CounterOK s n j tm →
      Reach P brk n (desugarL k brk n lt (s :: ss)).2 (jmpPos k brk n lt s ss post) post ⟨st, tm⟩ r

def Sim (k : CJ) (cfg : Cfg) (st : St) (r : Out) : Prop := SimT cfg st r ∧ SimE k cfg st r

/-! ### statements without control flow -/

theorem simple_flat {s : Stmt} {st0 st1 : St} (he : simpleEff s st0 = some st1) :
    ∃ f : FStmt, (∀ k brk n lt, desugarS k brk n lt s = ([(stmtTime lt s, f)], n)) ∧
      (∀ l, f ≠ .label l) ∧
      (∀ t st tm, wait t st = some st0 → effect (t, f) ⟨st, tm⟩ = some (⟨st1, tm⟩, none)) ∧
      st1.time = st0.time ∧ (∀ lt, endS lt s = stmtTime lt s) ∧ (∀ lt, MonoS lt s → lt ≤ stmtTime lt s) := by
  cases s <;> simp [simpleEff] at he
  case call op args =>
    subst he
    exact ⟨.call op args, by simp [desugarS, stmtTime], by simp, fun t st tm h => eff_call h, rfl, by simp [endS, stmtTime], by simp [stmtTime]⟩
  case assign r e =>
    subst he
    exact ⟨.assign (.reg r) e, by simp [desugarS, stmtTime], by simp, fun t st tm h => eff_assign_reg h, rfl, by simp [endS, stmtTime], by simp [stmtTime]⟩
  case tabs t =>
    subst he
    exact ⟨.tabs t, by simp [desugarS, stmtTime], by simp, fun t st tm h => eff_tabs h, rfl, by simp [endS, stmtTime], by simp [stmtTime, MonoS]⟩
  case trel d =>
    subst he
    exact ⟨.trel d, by simp [desugarS, stmtTime], by simp, fun t st tm h => eff_trel h, rfl, by simp [endS, stmtTime], by simp [stmtTime, MonoS]⟩

theorem Ctx.sub' {P pre code post : List AF} {n n' : Nat} (h : Ctx P pre code post n n')
    {A B Cp : List AF} {m m' : Nat} (hc : code ++ post = A ++ (B ++ Cp))
    (hA : ∀ l ∈ labelsOf A, l < m ∨ m' ≤ l) (h1 : n ≤ m) (h2 : m' ≤ n') :
    Ctx P (pre ++ A) B Cp m m' := by
  refine ⟨by rw [h.split, hc]; simp [List.append_assoc], ?_⟩
  intro l hl
  simp at hl
  rcases hl with hl | hl
  · have := h.out l hl; omega
  · exact hA l hl

theorem Ctx.jumpP {P pre code post : List AF} {n n' : Nat} (h : Ctx P pre code post n n')
    {A Y : List AF} {t : Int} {l : Nat} (hc : code ++ post = A ++ (t, .label l) :: Y) (hl : n ≤ l ∧ l < n')
    (hA : l ∉ labelsOf A) (fs : FS) :
    jumpS P l fs = some ((t, .label l) :: Y, fs.setTime t) := by
  apply jumpS_split (X := pre ++ A)
  · rw [h.split, hc]; simp [List.append_assoc]
  · simp
    refine ⟨fun hm => ?_, hA⟩
    have := h.out l hm; omega

section loops
variable {k : CJ} {brk n : Nat} {lt : Int} {s : Stmt} {ss : List Stmt} {pre post P : List AF}

theorem lay_facts (k : CJ) (n : Nat) (lt tE : Int) (s : Stmt) (h : s.isLoop = true) :
    n < (lay k n lt tE s).lp ∧ (lay k n lt tE s).lp < (lay k n lt tE s).nb ∧ n + 1 < (lay k n lt tE s).nb ∧
    labelsOf (lay k n lt tE s).head = [] ∧
    (∀ l ∈ labelsOf (lay k n lt tE s).tail, n < l ∧ l < (lay k n lt tE s).nb ∧ l ≠ (lay k n lt tE s).lp) ∧
    (∀ l, (lay k n lt tE s).jmp ≠ .label l) := by
  cases s with
  | times clob count b => cases clob <;> simp [lay] <;> omega
  | _ => simp_all [lay, Stmt.isLoop] <;> omega

theorem loop_ranges (k : CJ) (brk n : Nat) (lt : Int) (s : Stmt) (ss : List Stmt) :
    (lay k n lt (endL lt s.body) s).nb ≤ (desugarB k n (lay k n lt (endL lt s.body) s).nb lt s.body).2 ∧
    InRange (lay k n lt (endL lt s.body) s).nb (desugarB k n (lay k n lt (endL lt s.body) s).nb lt s.body).2
      (desugarB k n (lay k n lt (endL lt s.body) s).nb lt s.body).1 ∧
    (desugarB k n (lay k n lt (endL lt s.body) s).nb lt s.body).2 ≤ (restCode k brk n lt s ss).2 ∧
    InRange (desugarB k n (lay k n lt (endL lt s.body) s).nb lt s.body).2 (restCode k brk n lt s ss).2
      (restCode k brk n lt s ss).1 := by
  have h1 := rangeB k n (lay k n lt (endL lt s.body) s).nb lt s.body
  have h2 := rangeL k brk (desugarB k n (lay k n lt (endL lt s.body) s).nb lt s.body).2 (endL lt s.body) ss
  exact ⟨h1.1, h1.2, h2.1, h2.2⟩

/-- the tail of a loop layout is inert at the block's end time -/
theorem tail_exec (k : CJ) (n : Nat) (lt : Int) (s : Stmt) (h : s.isLoop = true) (c : List AF)
    {st : St} (tm : Nat → Int32) (ht : st.time = endL lt s.body) :
    ExecS P ((lay k n lt (endL lt s.body) s).tail ++ c) ⟨st, tm⟩ c ⟨st, tm⟩ := by
  cases s with
  | times clob count b =>
    cases clob with
    | none =>
      simp only [lay, List.cons_append, List.nil_append]
      exact (ExecS.label_here ht).trans (ExecS.next (eff_scopeEnd (wait_self ht)))
    | some x =>
      simp only [lay, List.cons_append, List.nil_append]
      exact ExecS.label_here ht
  | while_ c' b =>
    simp only [lay, List.cons_append, List.nil_append]
    exact ExecS.label_here ht
  | loop b => simpa [lay] using ExecS.refl _ _
  | doWhile c' b => simpa [lay] using ExecS.refl _ _
  | _ => simp [Stmt.isLoop] at h


theorem ctx_body (h : s.isLoop = true)
    (hctx : Ctx P pre (desugarL k brk n lt (s :: ss)).1 post n (desugarL k brk n lt (s :: ss)).2) :
    Ctx P (pre ++ ((lay k n lt (endL lt s.body) s).head ++ [(lt, .label (lay k n lt (endL lt s.body) s).lp)]))
      (desugarB k n (lay k n lt (endL lt s.body) s).nb lt s.body).1 (jmpPos k brk n lt s ss post)
      (lay k n lt (endL lt s.body) s).nb (desugarB k n (lay k n lt (endL lt s.body) s).nb lt s.body).2 := by
  have hf := lay_facts k n lt (endL lt s.body) s h
  have hr := loop_ranges k brk n lt s ss
  apply hctx.sub' (by rw [loop_code _ _ _ _ _ _ _ h]; simp [lpPos, bodyPos, List.append_assoc])
  · intro l hl
    simp [hf.2.2.2.1] at hl
    omega
  · omega
  · rw [loop_snd _ _ _ _ _ _ h]; omega

theorem ctx_rest (h : s.isLoop = true)
    (hctx : Ctx P pre (desugarL k brk n lt (s :: ss)).1 post n (desugarL k brk n lt (s :: ss)).2) :
    Ctx P (pre ++ ((lay k n lt (endL lt s.body) s).head ++ (lt, .label (lay k n lt (endL lt s.body) s).lp) ::
        ((desugarB k n (lay k n lt (endL lt s.body) s).nb lt s.body).1 ++
          (endL lt s.body, (lay k n lt (endL lt s.body) s).jmp) ::
            ((lay k n lt (endL lt s.body) s).tail ++ [(endL lt s.body, .label n)]))))
      (restCode k brk n lt s ss).1 post
      (desugarB k n (lay k n lt (endL lt s.body) s).nb lt s.body).2 (restCode k brk n lt s ss).2 := by
  have hf := lay_facts k n lt (endL lt s.body) s h
  have hr := loop_ranges k brk n lt s ss
  apply hctx.sub' (Cp := post) (by rw [loop_code _ _ _ _ _ _ _ h]; simp [lpPos, bodyPos, jmpPos, tailPos, lePos, List.append_assoc])
  · intro l hl
    rw [labelsOf_append, labelsOf_cons_label, labelsOf_append, labelsOf_cons_other _ _ (by simpa using hf.2.2.2.2.2),
      labelsOf_append] at hl
    simp [hf.2.2.2.1] at hl
    rcases hl with rfl | hl | hl | rfl
    · omega
    · have := hr.2.1 l (by simpa using hl); omega
    · have := hf.2.2.2.2.1 l hl; omega
    · omega
  · omega
  · rw [loop_snd _ _ _ _ _ _ h]; omega

theorem jump_lp (h : s.isLoop = true)
    (hctx : Ctx P pre (desugarL k brk n lt (s :: ss)).1 post n (desugarL k brk n lt (s :: ss)).2) (fs : FS) :
    jumpS P (lay k n lt (endL lt s.body) s).lp fs = some (lpPos k brk n lt s ss post, fs.setTime lt) := by
  have hf := lay_facts k n lt (endL lt s.body) s h
  have hr := loop_ranges k brk n lt s ss
  exact hctx.jumpP (A := (lay k n lt (endL lt s.body) s).head) (by rw [loop_code _ _ _ _ _ _ _ h]; rfl)
    (by rw [loop_snd _ _ _ _ _ _ h]; omega) (by simp [hf.2.2.2.1]) fs

theorem jump_le (h : s.isLoop = true)
    (hctx : Ctx P pre (desugarL k brk n lt (s :: ss)).1 post n (desugarL k brk n lt (s :: ss)).2) (fs : FS) :
    jumpS P n fs = some (lePos k brk n lt s ss post, fs.setTime (endL lt s.body)) := by
  have hf := lay_facts k n lt (endL lt s.body) s h
  have hr := loop_ranges k brk n lt s ss
  refine hctx.jumpP (A := (lay k n lt (endL lt s.body) s).head ++ (lt, .label (lay k n lt (endL lt s.body) s).lp) ::
        ((desugarB k n (lay k n lt (endL lt s.body) s).nb lt s.body).1 ++
          (endL lt s.body, (lay k n lt (endL lt s.body) s).jmp) :: (lay k n lt (endL lt s.body) s).tail))
    (by rw [loop_code _ _ _ _ _ _ _ h]; simp [lpPos, bodyPos, jmpPos, tailPos, lePos, List.append_assoc])
    (by rw [loop_snd _ _ _ _ _ _ h]; omega) ?_ fs
  rw [labelsOf_append, labelsOf_cons_label, labelsOf_append, labelsOf_cons_other _ _ (by simpa using hf.2.2.2.2.2)]
  simp [hf.2.2.2.1]
  refine ⟨by omega, fun hl => ?_, fun hl => ?_⟩
  · have := hr.2.1 n (by simpa using hl); omega
  · have := hf.2.2.2.2.1 n hl; omega

/-- jump to the first label of the tail (`@cond#` of a `while`, `@times_zero#`) -/
theorem jump_tail (h : s.isLoop = true)
    (hctx : Ctx P pre (desugarL k brk n lt (s :: ss)).1 post n (desugarL k brk n lt (s :: ss)).2)
    {z : Nat} {tl : List AF} (htl : (lay k n lt (endL lt s.body) s).tail = (endL lt s.body, .label z) :: tl) (fs : FS) :
    jumpS P z fs = some (tailPos k brk n lt s ss post, fs.setTime (endL lt s.body)) := by
  have hf := lay_facts k n lt (endL lt s.body) s h
  have hr := loop_ranges k brk n lt s ss
  have hz := hf.2.2.2.2.1 z (by rw [htl]; simp)
  have : tailPos k brk n lt s ss post = (endL lt s.body, .label z) :: (tl ++ lePos k brk n lt s ss post) := by
    simp [tailPos, htl]
  rw [this]
  refine hctx.jumpP (A := (lay k n lt (endL lt s.body) s).head ++ (lt, .label (lay k n lt (endL lt s.body) s).lp) ::
        ((desugarB k n (lay k n lt (endL lt s.body) s).nb lt s.body).1 ++
          [(endL lt s.body, (lay k n lt (endL lt s.body) s).jmp)]))
    (by rw [loop_code _ _ _ _ _ _ _ h]; simp [lpPos, bodyPos, jmpPos, tailPos, htl, List.append_assoc])
    (by rw [loop_snd _ _ _ _ _ _ h]; omega) ?_ fs
  rw [labelsOf_append, labelsOf_cons_label, labelsOf_append, labelsOf_cons_other _ _ (by simpa using hf.2.2.2.2.2)]
  simp [hf.2.2.2.1]
  refine ⟨by omega, fun hl => ?_⟩
  have := hr.2.1 z (by simpa using hl); omega

theorem CounterOK.frame {s : Stmt} {n : Nat} {j : Int32} {tm tm1 : Nat → Int32} {a a' : Nat}
    (h : CounterOK s n j tm) (hf : Frame a a' tm tm1) (ha : n + 1 < a) : CounterOK s n j tm1 := by
  cases s with
  | times clob count b =>
    cases clob with
    | none => simp only [CounterOK] at h ⊢; rw [hf (n+1) (Or.inl ha)]; exact h
    | some x => trivial
  | _ => trivial

end loops
theorem int32_pred_pos (j : Int32) (h : 0 < j) (h1 : j - 1 ≠ 0) : 0 < j - 1 := by
  rw [Int32.lt_iff_toInt_lt] at h ⊢
  have hne : (j - 1).toInt ≠ (0 : Int32).toInt := fun e => h1 (Int32.toInt_inj.1 e)
  rw [Int32.toInt_sub] at hne ⊢
  have hj := Int32.toInt_lt j
  have h0 : (0 : Int32).toInt = 0 := by decide
  have h1' : (1 : Int32).toInt = 1 := by decide
  rw [h0] at h hne ⊢
  rw [h1'] at hne ⊢
  rw [Int.bmod_def] at hne ⊢
  omega

theorem needZero_of_eval_zero {count : Expr} {σ : Nat → Int32} (h : count.eval σ = 0) : needZeroTest count = true := by
  cases count <;> simp_all [needZeroTest, Expr.asConst, Expr.eval]

theorem test_true_of_ne (k : CJ) (x : Int32) (hne : x ≠ 0) (hgt : k = .gt → 0 < x) : k.test x = true := by
  cases k <;> simp_all [CJ.test]

theorem test_zero (k : CJ) : k.test 0 = false := by
  cases k <;> simp [CJ.test]

section
variable {t : Int} {st st0 : St} {tm : Nat → Int32}

theorem eff_jz_yes {v l} (h : wait t st = some st0) (hv : (FS.mk st0 tm).get v = 0) :
    effect (t, .jz v l) ⟨st, tm⟩ = some (⟨st0, tm⟩, some l) := by
  simp [effect, h, hv]
theorem eff_jz_no {v l} (h : wait t st = some st0) (hv : (FS.mk st0 tm).get v ≠ 0) :
    effect (t, .jz v l) ⟨st, tm⟩ = some (⟨st0, tm⟩, none) := by
  simp [effect, h, hv]
theorem eff_cntjmp_yes {k v l} (h : wait t st = some st0) (hv : k.test ((FS.mk st0 tm).get v - 1) = true) :
    effect (t, .cntjmp k v l) ⟨st, tm⟩ = some ((FS.mk st0 tm).set v ((FS.mk st0 tm).get v - 1), some l) := by
  simp [effect, h, hv]
theorem eff_cntjmp_no {k v l} (h : wait t st = some st0) (hv : k.test ((FS.mk st0 tm).get v - 1) = false) :
    effect (t, .cntjmp k v l) ⟨st, tm⟩ = some ((FS.mk st0 tm).set v ((FS.mk st0 tm).get v - 1), none) := by
  simp [effect, h, hv]
end

theorem exec_zeroTest_skip {P : List AF} {lt : Int} {v : Var} {l : Nat} {c : Expr} {rest : List AF} {st : St} {tm : Nat → Int32}
    (ht : st.time = lt) (hv : (FS.mk st tm).get v ≠ 0) :
    ExecS P (zeroTest lt v l c ++ rest) ⟨st, tm⟩ rest ⟨st, tm⟩ := by
  unfold zeroTest
  split
  · exact ExecS.next (eff_jz_no (wait_self ht) hv)
  · exact ExecS.refl _ _

end TruthModel.Blocks
