import TruthModel.Lemmas.BlocksSim
namespace TruthModel.Blocks

/-- leaving a loop through the tail of its layout, at the block's end time -/
theorem exit_tail {k : CJ} {brk n : Nat} {lt : Int} {s : Stmt} {ss : List Stmt} {pre post P : List AF}
    (hl : s.isLoop = true)
    (hctx : Ctx P pre (desugarL k brk n lt (s :: ss)).1 post n (desugarL k brk n lt (s :: ss)).2)
    {st : St} {tm : Nat → Int32} {r : Out} (ht : st.time = endL lt s.body)
    (hs : Reach P brk (desugarB k n (lay k n lt (endL lt s.body) s).nb lt s.body).2 (restCode k brk n lt s ss).2
      ((restCode k brk n lt s ss).1 ++ post) post ⟨st, tm⟩ r) :
    Reach P brk n (desugarL k brk n lt (s :: ss)).2 (tailPos k brk n lt s ss post) post ⟨st, tm⟩ r := by
  have hf := lay_facts k n lt (endL lt s.body) s hl
  have hr := loop_ranges k brk n lt s ss
  rw [loop_snd _ _ _ _ _ _ hl]
  exact Reach.prefix' ((tail_exec k n lt s hl _ tm ht).trans (ExecS.label_here ht)) (hs.mono (by omega) (Nat.le_refl _))

theorem body_of_loop (b : List Stmt) : (Stmt.loop b).body = b := rfl
theorem body_of_doWhile (c : Expr) (b : List Stmt) : (Stmt.doWhile c b).body = b := rfl
theorem body_of_while (c : Expr) (b : List Stmt) : (Stmt.while_ c b).body = b := rfl
theorem body_of_times (x : Option Nat) (c : Expr) (b : List Stmt) : (Stmt.times x c b).body = b := rfl

theorem sim (k : CJ) {cfg : Cfg} {st : St} {r : Out} (h : Big (some k) cfg st r) : Sim k cfg st r := by
  induction h with
  | nil lt st =>
    refine ⟨?_, ?_⟩
    · simp only [SimT]; intro h _; simpa [endL] using h
    · simp only [SimE]
      intro brk n pre post P tm hctx hle hm
      exact ⟨tm, Frame.refl _ _ _, by simpa [desugarL] using ExecS.refl _ _⟩
  | simple lt s ss st st0 st1 r hw he _ ih =>
    obtain ⟨f, hcode, hnl, heff, htime, hend, hmono⟩ := simple_flat he
    refine ⟨?_, ?_⟩
    · cases r with
      | brk _ => simp only [SimT]
      | done st' =>
        simp only [SimT]
        intro hle hm
        simp only [MonoL] at hm
        have h0 : st0.time = stmtTime lt s := wait_time_of_le hw (by have := hmono lt hm.1; omega)
        have := ih.1
        simp only [SimT] at this
        have := this (by rw [htime, h0, hend]; exact Int.le_refl _) hm.2
        simpa [endL] using this
    · simp only [SimE]
      intro brk n pre post P tm hctx hle hm
      simp only [MonoL] at hm
      have h0 : st0.time = stmtTime lt s := wait_time_of_le hw (by have := hmono lt hm.1; omega)
      have hc : desugarL k brk n lt (s :: ss) = ((stmtTime lt s, f) :: (desugarL k brk n (endS lt s) ss).1, (desugarL k brk n (endS lt s) ss).2) := by
        simp [desugarL, hcode]
      rw [hc] at hctx ⊢
      have ih2 := ih.2
      simp only [SimE] at ih2
      have hctx' : Ctx P (pre ++ [(stmtTime lt s, f)]) (desugarL k brk n (endS lt s) ss).1 post n (desugarL k brk n (endS lt s) ss).2 :=
        hctx.tail (A := [(stmtTime lt s, f)]) (by simp) (by intro l hl; rw [labelsOf_cons_other _ _ (by simpa using hnl)] at hl; simp at hl) (Nat.le_refl _) (Nat.le_refl _)
      have := ih2 brk n _ post P tm hctx' (by rw [htime, h0, hend]; exact Int.le_refl _) hm.2
      exact Reach.prefix' (ExecS.next (heff _ _ _ hw)) this
  | brk lt ss st st0 hw =>
    refine ⟨by simp only [SimT], ?_⟩
    simp only [SimE]
    intro brk n pre post P tm hctx hle hm
    have hc : desugarL k brk n lt (.brk :: ss) = ((lt, .goto brk) :: (desugarL k brk n lt ss).1, (desugarL k brk n lt ss).2) := by
      simp [desugarL, desugarS, endS]
    rw [hc]
    exact ⟨tm, Frame.refl _ _ _, fun J fsJ hj => ExecS.jump (eff_goto hw) hj⟩
  | cbrkT lt isIf c ss st st0 hw hc' =>
    refine ⟨by simp only [SimT], ?_⟩
    simp only [SimE]
    intro brk n pre post P tm hctx hle hm
    have hc : desugarL k brk n lt (.cbrk isIf c :: ss) = ((lt, .cjmp isIf c brk) :: (desugarL k brk n lt ss).1, (desugarL k brk n lt ss).2) := by
      simp [desugarL, desugarS, endS]
    rw [hc]
    exact ⟨tm, Frame.refl _ _ _, fun J fsJ hj => ExecS.jump (eff_cjmp_yes hw hc') hj⟩
  | cbrkF lt isIf c ss st st0 r hw hc' _ ih =>
    have h0 : st.time ≤ lt → st0.time = lt := fun h => wait_time_of_le hw h
    refine ⟨?_, ?_⟩
    · cases r with
      | brk _ => simp only [SimT]
      | done st' =>
        simp only [SimT]
        intro hle hm
        simp only [MonoL, MonoS, endS, true_and] at hm
        have := ih.1
        simp only [SimT] at this
        have := this (by rw [h0 hle]; exact Int.le_refl _) hm
        simpa [endL, endS] using this
    · simp only [SimE]
      intro brk n pre post P tm hctx hle hm
      simp only [MonoL, MonoS, endS, true_and] at hm
      have hc : desugarL k brk n lt (.cbrk isIf c :: ss) = ((lt, .cjmp isIf c brk) :: (desugarL k brk n lt ss).1, (desugarL k brk n lt ss).2) := by
        simp [desugarL, desugarS, endS]
      rw [hc] at hctx ⊢
      have ih2 := ih.2
      simp only [SimE] at ih2
      have hctx' : Ctx P (pre ++ [(lt, .cjmp isIf c brk)]) (desugarL k brk n lt ss).1 post n (desugarL k brk n lt ss).2 :=
        hctx.tail (A := [(lt, .cjmp isIf c brk)]) (by simp) (by simp) (Nat.le_refl _) (Nat.le_refl _)
      have := ih2 brk n _ post P tm hctx' (by rw [h0 hle]; exact Int.le_refl _) hm
      exact Reach.prefix' (ExecS.next (eff_cjmp_no hw hc')) this
  | block lt b ss st st0 st1 r hw _ _ ihb ihs =>
    have h0 : st.time ≤ lt → st0.time = lt := fun h => wait_time_of_le hw h
    have ihb1 := ihb.1
    simp only [SimT] at ihb1
    refine ⟨?_, ?_⟩
    · cases r with
      | brk _ => simp only [SimT]
      | done st' =>
        simp only [SimT]
        intro hle hm
        simp only [MonoL, MonoS, endS] at hm
        have h1 := ihb1 (by rw [h0 hle]; exact Int.le_refl _) hm.1
        have := ihs.1
        simp only [SimT] at this
        have := this (by rw [h1]; exact Int.le_refl _) hm.2
        simpa [endL, endS] using this
    · simp only [SimE]
      intro brk n pre post P tm hctx hle hm
      simp only [MonoL, MonoS, endS] at hm
      have h1 := ihb1 (by rw [h0 hle]; exact Int.le_refl _) hm.1
      have hc : desugarL k brk n lt (.block b :: ss) = ((desugarB k brk n lt b).1 ++ (desugarL k brk (desugarB k brk n lt b).2 (endL lt b) ss).1, (desugarL k brk (desugarB k brk n lt b).2 (endL lt b) ss).2) := by
        simp [desugarL, desugarS, endS, desugarB]
      rw [hc] at hctx ⊢
      simp only [List.append_assoc]
      have hrb := rangeB k brk n lt b
      have hrs := rangeL k brk (desugarB k brk n lt b).2 (endL lt b) ss
      have ihb2 := ihb.2
      have ihs2 := ihs.2
      simp only [SimE] at ihb2 ihs2
      have hctxb : Ctx P pre (desugarB k brk n lt b).1 ((desugarL k brk (desugarB k brk n lt b).2 (endL lt b) ss).1 ++ post) n (desugarB k brk n lt b).2 :=
        hctx.head rfl (Nat.le_refl _) hrs.1
      have hctxs : Ctx P (pre ++ (desugarB k brk n lt b).1) (desugarL k brk (desugarB k brk n lt b).2 (endL lt b) ss).1 post (desugarB k brk n lt b).2 (desugarL k brk (desugarB k brk n lt b).2 (endL lt b) ss).2 :=
        hctx.tail rfl (fun l hl => by have := hrb.2 l hl; omega) hrb.1 (Nat.le_refl _)
      refine Reach.seq (ihb2 brk n pre _ P tm st hctxb (by rw [h0 hle]; exact Int.le_refl _) hm.1 ?_) (fun tm1 _ => ihs2 brk _ _ post P tm1 hctxs (by rw [h1]; exact Int.le_refl _) hm.2) (Nat.le_refl _) hrs.1 hrb.1 (Nat.le_refl _)
      rw [hw, wait_idem hw]
  | blockBrk lt b ss st st0 st1 hw _ ihb =>
    have h0 : st.time ≤ lt → st0.time = lt := fun h => wait_time_of_le hw h
    refine ⟨by simp only [SimT], ?_⟩
    simp only [SimE]
    intro brk n pre post P tm hctx hle hm
    simp only [MonoL, MonoS, endS] at hm
    have hc : desugarL k brk n lt (.block b :: ss) = ((desugarB k brk n lt b).1 ++ (desugarL k brk (desugarB k brk n lt b).2 (endL lt b) ss).1, (desugarL k brk (desugarB k brk n lt b).2 (endL lt b) ss).2) := by
      simp [desugarL, desugarS, endS, desugarB]
    rw [hc] at hctx ⊢
    simp only [List.append_assoc]
    have hrs := rangeL k brk (desugarB k brk n lt b).2 (endL lt b) ss
    have ihb2 := ihb.2
    simp only [SimE] at ihb2
    have hctxb : Ctx P pre (desugarB k brk n lt b).1 ((desugarL k brk (desugarB k brk n lt b).2 (endL lt b) ss).1 ++ post) n (desugarB k brk n lt b).2 :=
      hctx.head rfl (Nat.le_refl _) hrs.1
    exact Reach.brk_of (ihb2 brk n pre _ P tm st hctxb (by rw [h0 hle]; exact Int.le_refl _) hm.1 (by rw [hw, wait_idem hw])) (Nat.le_refl _) hrs.1
  | blk lt b st st0 st1 st2 hw _ hw2 ih =>
    have h0 : st.time ≤ lt → st0.time = lt := fun h => wait_time_of_le hw h
    have ih1 := ih.1
    simp only [SimT] at ih1
    refine ⟨?_, ?_⟩
    · simp only [SimT]
      intro hle hm
      exact wait_time_of_le hw2 (ih1 (by rw [h0 hle]; exact Int.le_refl _) hm)
    · simp only [SimE]
      intro brk n pre post P tm stf hctx hle hm hwf
      have h1 := ih1 (by rw [h0 hle]; exact Int.le_refl _) hm
      have hc : desugarB k brk n lt b = ((lt, .nop) :: ((desugarL k brk n lt b).1 ++ [(endL lt b, .nop)]), (desugarL k brk n lt b).2) := by
        simp [desugarB, bookend]
      rw [hc] at hctx ⊢
      have ih2 := ih.2
      simp only [SimE] at ih2
      have hctx' : Ctx P (pre ++ [(lt, .nop)]) (desugarL k brk n lt b).1 ([(endL lt b, .nop)] ++ post) n (desugarL k brk n lt b).2 :=
        hctx.sub (A := [(lt, .nop)]) (C := [(endL lt b, .nop)]) (by simp) (by simp) (Nat.le_refl _) (Nat.le_refl _)
      have := ih2 brk n _ _ P tm hctx' (by rw [h0 hle]; exact Int.le_refl _) hm
      obtain ⟨tm', hf, hx⟩ := this
      refine ⟨tm', hf, ?_⟩
      simp only [List.cons_append, List.append_assoc, List.nil_append] at hx ⊢
      exact (ExecS.next (eff_nop (by rw [hwf]; exact hw))).trans (hx.trans (ExecS.next (eff_nop hw2)))
  | blkBrk lt b st st0 st1 hw _ ih =>
    have h0 : st.time ≤ lt → st0.time = lt := fun h => wait_time_of_le hw h
    refine ⟨by simp only [SimT], ?_⟩
    simp only [SimE]
    intro brk n pre post P tm stf hctx hle hm hwf
    have hc : desugarB k brk n lt b = ((lt, .nop) :: ((desugarL k brk n lt b).1 ++ [(endL lt b, .nop)]), (desugarL k brk n lt b).2) := by
      simp [desugarB, bookend]
    rw [hc] at hctx ⊢
    have ih2 := ih.2
    simp only [SimE] at ih2
    have hctx' : Ctx P (pre ++ [(lt, .nop)]) (desugarL k brk n lt b).1 ([(endL lt b, .nop)] ++ post) n (desugarL k brk n lt b).2 :=
      hctx.sub (A := [(lt, .nop)]) (C := [(endL lt b, .nop)]) (by simp) (by simp) (Nat.le_refl _) (Nat.le_refl _)
    have := ih2 brk n _ _ P tm hctx' (by rw [h0 hle]; exact Int.le_refl _) hm
    obtain ⟨tm', hf, hx⟩ := this
    simp only [List.cons_append, List.append_assoc, List.nil_append] at hx ⊢
    exact ⟨tm', hf, fun J fsJ hj => (ExecS.next (eff_nop (by rw [hwf]; exact hw))).trans (hx J fsJ hj)⟩
  | cond lt ch ss st st0 r hw _ ih =>
    have h0 : st.time ≤ lt → st0.time = lt := fun h => wait_time_of_le hw h
    refine ⟨?_, ?_⟩
    · cases r with
      | brk _ => simp only [SimT]
      | done st' =>
        simp only [SimT]
        intro hle hm
        simp only [MonoL, MonoS, endS] at hm
        have := ih.1
        simp only [SimT] at this
        simpa [endL, endS] using this hm.1 hm.2
    · simp only [SimE]
      intro brk n pre post P tm hctx hle hm
      simp only [MonoL, MonoS, endS] at hm
      have hc : desugarL k brk n lt (.cond ch :: ss) = ((desugarC k brk n (n+1) lt ch).1 ++ (endC lt ch, .label n) :: (desugarL k brk (desugarC k brk n (n+1) lt ch).2 (endC lt ch) ss).1, (desugarL k brk (desugarC k brk n (n+1) lt ch).2 (endC lt ch) ss).2) := by
        simp [desugarL, desugarS, endS]
      rw [hc] at hctx ⊢
      simp only [List.cons_append, List.append_assoc]
      have hrc := rangeC k brk n (n+1) lt ch
      have hrs := rangeL k brk (desugarC k brk n (n+1) lt ch).2 (endC lt ch) ss
      have ih2 := ih.2
      simp only [SimE] at ih2
      have hctx' : Ctx P pre ((desugarC k brk n (n+1) lt ch).1 ++ (endC lt ch, .label n) :: (desugarL k brk (desugarC k brk n (n+1) lt ch).2 (endC lt ch) ss).1) post (n+1) (desugarL k brk (desugarC k brk n (n+1) lt ch).2 (endC lt ch) ss).2 :=
        hctx.weaken (by omega) (Nat.le_refl _)
      have hve : n ∉ labelsOf pre := fun hm' => by have := hctx.out n hm'; omega
      have := ih2 brk n (n+1) pre post P tm st hctx' hve (by omega) hm.1 hm.2 (by rw [hw, St.setTime_self (h0 hle)])
      exact this.mono (by omega) (Nat.le_refl _)
  | chainNone lt ss st r _ ih =>
    refine ⟨?_, ?_⟩
    · cases r with
      | brk _ => simp only [SimT]
      | done st' =>
        simp only [SimT]
        intro _ hm
        have := ih.1
        simp only [SimT] at this
        simpa [endC] using this (by simp) (by simpa [endC] using hm)
    · simp only [SimE]
      intro brk ve n pre post P tm stf hctx hve hven _ hm hwf
      simp only [desugarC, endC, List.nil_append] at hctx hm ⊢
      have ih2 := ih.2
      simp only [SimE] at ih2
      have hctx' : Ctx P (pre ++ [(lt, .label ve)]) (desugarL k brk n lt ss).1 post n (desugarL k brk n lt ss).2 :=
        hctx.tail (A := [(lt, .label ve)]) (by simp) (by simp; omega) (Nat.le_refl _) (Nat.le_refl _)
      have := ih2 brk n _ post P tm hctx' (by simp) hm
      exact Reach.prefix' (ExecS.next (eff_label hwf)) this
  | chainEls lt b ss st st1 r _ _ ihb ihs =>
    have ihb1 := ihb.1
    simp only [SimT] at ihb1
    refine ⟨?_, ?_⟩
    · cases r with
      | brk _ => simp only [SimT]
      | done st' =>
        simp only [SimT]
        intro hmc hm
        have := ihs.1
        simp only [SimT] at this
        simpa [endC] using this (by simp) (by simpa [endC] using hm)
    · simp only [SimE]
      intro brk ve n pre post P tm stf hctx hve hven hmc hm hwf
      simp only [desugarC, endC, MonoC] at hctx hm hmc ⊢
      have h1 := ihb1 (by simp) hmc
      have hrb := rangeB k brk n lt b
      have hrs := rangeL k brk (desugarB k brk n lt b).2 (endL lt b) ss
      have ihb2 := ihb.2
      have ihs2 := ihs.2
      simp only [SimE] at ihb2 ihs2
      have hB : bookend lt (endL lt b) (desugarL k brk n lt b) = desugarB k brk n lt b := rfl
      rw [hB] at hctx ⊢
      have hctxb : Ctx P pre (desugarB k brk n lt b).1 ((endL lt b, .label ve) :: ((desugarL k brk (desugarB k brk n lt b).2 (endL lt b) ss).1 ++ post)) n (desugarB k brk n lt b).2 :=
        hctx.head (C := (endL lt b, .label ve) :: (desugarL k brk (desugarB k brk n lt b).2 (endL lt b) ss).1) rfl (Nat.le_refl _) hrs.1
      have hctxs : Ctx P (pre ++ ((desugarB k brk n lt b).1 ++ [(endL lt b, .label ve)])) (desugarL k brk (desugarB k brk n lt b).2 (endL lt b) ss).1 post (desugarB k brk n lt b).2 (desugarL k brk (desugarB k brk n lt b).2 (endL lt b) ss).2 :=
        hctx.tail (by simp) (fun l hl => by
          simp at hl
          rcases hl with hl | rfl
          · have := hrb.2 l (by simpa using hl); omega
          · omega) hrb.1 (Nat.le_refl _)
      refine Reach.seq (ihb2 brk n pre _ P tm stf hctxb (by simp) hmc (by rw [hwf, wait_setTime])) (fun tm1 _ => ?_) (Nat.le_refl _) hrs.1 hrb.1 (Nat.le_refl _)
      have := ihs2 brk _ _ post P tm1 hctxs (by simp) hm
      rw [St.setTime_self h1] at this
      exact Reach.prefix' (ExecS.label_here h1) this
  | chainElsBrk lt b ss st st1 _ ihb =>
    refine ⟨by simp only [SimT], ?_⟩
    simp only [SimE]
    intro brk ve n pre post P tm stf hctx hve hven hmc hm hwf
    simp only [desugarC, endC, MonoC] at hctx hm hmc ⊢
    have hrs := rangeL k brk (desugarB k brk n lt b).2 (endL lt b) ss
    have ihb2 := ihb.2
    simp only [SimE] at ihb2
    have hB : bookend lt (endL lt b) (desugarL k brk n lt b) = desugarB k brk n lt b := rfl
    rw [hB] at hctx ⊢
    have hctxb : Ctx P pre (desugarB k brk n lt b).1 ((endL lt b, .label ve) :: ((desugarL k brk (desugarB k brk n lt b).2 (endL lt b) ss).1 ++ post)) n (desugarB k brk n lt b).2 :=
      hctx.head (C := (endL lt b, .label ve) :: (desugarL k brk (desugarB k brk n lt b).2 (endL lt b) ss).1) rfl (Nat.le_refl _) hrs.1
    have := ihb2 brk n pre _ P tm stf hctxb (by simp) hmc (by rw [hwf, wait_setTime])
    exact Reach.brk_of this (Nat.le_refl _) hrs.1
  | chainT lt isIf c thn rest ss st st1 r hcond _ _ ihb ihs =>
    have ihb1 := ihb.1
    simp only [SimT] at ihb1
    have hE : endC lt (.elif isIf c thn rest) = endC (endL lt thn) rest := by simp [endC]
    refine ⟨?_, ?_⟩
    · cases r with
      | brk _ => simp only [SimT]
      | done st' =>
        simp only [SimT]
        intro hmc hm
        have := ihs.1
        simp only [SimT] at this
        exact this (by simp) hm
    · simp only [SimE]
      intro brk ve n pre post P tm stf hctx hve hven hmc hm hwf
      simp only [MonoC] at hmc
      have h1 := ihb1 (by simp) hmc.1
      have hcode : desugarC k brk ve n lt (.elif isIf c thn rest) = ((lt, .cjmp (!isIf) c n) :: ((desugarB k brk (n+1) lt thn).1 ++ (gotoEnd (endL lt thn) ve rest ++ (endL lt thn, .label n) :: (desugarC k brk ve (desugarB k brk (n+1) lt thn).2 (endL lt thn) rest).1)), (desugarC k brk ve (desugarB k brk (n+1) lt thn).2 (endL lt thn) rest).2) := by
        simp [desugarC, desugarB, List.append_assoc]
      rw [hcode] at hctx ⊢
      have hrt := rangeB k brk (n+1) lt thn
      have hrc := rangeC k brk ve (desugarB k brk (n+1) lt thn).2 (endL lt thn) rest
      have hrs := rangeL k brk (desugarC k brk ve (desugarB k brk (n+1) lt thn).2 (endL lt thn) rest).2 (endC lt (.elif isIf c thn rest)) ss
      have ihb2 := ihb.2
      have ihs2 := ihs.2
      simp only [SimE] at ihb2 ihs2
      -- names
      generalize hT : desugarB k brk (n+1) lt thn = T at *
      generalize hRC : desugarC k brk ve T.2 (endL lt thn) rest = RC at *
      generalize hR : desugarL k brk RC.2 (endC lt (.elif isIf c thn rest)) ss = R at *
      simp only [List.cons_append, List.append_assoc] at hctx ⊢
      have hctxb : Ctx P (pre ++ [(lt, .cjmp (!isIf) c n)]) T.1 (gotoEnd (endL lt thn) ve rest ++ ((endL lt thn, .label n) :: (RC.1 ++ (endC lt (.elif isIf c thn rest), .label ve) :: R.1)) ++ post) (n+1) T.2 :=
        hctx.sub (A := [(lt, .cjmp (!isIf) c n)]) (by simp) (by simp) (by omega) (by omega)
      have hctxs : Ctx P (pre ++ ((lt, .cjmp (!isIf) c n) :: (T.1 ++ (gotoEnd (endL lt thn) ve rest ++ ((endL lt thn, .label n) :: (RC.1 ++ [(endC lt (.elif isIf c thn rest), .label ve)])))))) R.1 post RC.2 R.2 :=
        hctx.tail (by simp) (fun l hl => by
          simp at hl
          rcases hl with hl | rfl | hl | rfl
          · have := hrt.2 l hl; omega
          · omega
          · have := hrc.2 l hl; omega
          · omega) (by omega) (Nat.le_refl _)
      have hb := ihb2 brk (n+1) _ _ P tm (st.setTime lt) (by rw [hT]; exact hctxb) (by simp) hmc.1 rfl
      rw [hT] at hb
      have hs : ∀ tm1, Reach P brk RC.2 R.2 (R.1 ++ post) post ⟨st1.setTime (endC lt (.elif isIf c thn rest)), tm1⟩ r :=
        fun tm1 => by rw [← hR]; exact ihs2 brk RC.2 _ post P tm1 (by rw [hR]; exact hctxs) (by simp) hm
      -- the conditional jump is not taken
      have hstep1 := ExecS.next (P := P) (c := T.1 ++ (gotoEnd (endL lt thn) ve rest ++ (endL lt thn, .label n) :: (RC.1 ++ (endC lt (.elif isIf c thn rest), .label ve) :: (R.1 ++ post)))) (eff_cjmp_no (tm := tm) (isIf := !isIf) (c := c) (l := n) hwf (by simp [hcond]))
      refine Reach.prefix' hstep1 ?_
      simp only [List.append_assoc, List.cons_append] at hb
      refine Reach.seq (b := RC.2) (b' := R.2) hb (fun tm1 _ => ?_) (by omega) (by omega) (by omega) (Nat.le_refl _)
      -- from the end of the block to the code after the chain
      suffices hx : ExecS P (gotoEnd (endL lt thn) ve rest ++ (endL lt thn, .label n) :: (RC.1 ++ (endC lt (.elif isIf c thn rest), .label ve) :: (R.1 ++ post))) ⟨st1, tm1⟩ (R.1 ++ post) ⟨st1.setTime (endC lt (.elif isIf c thn rest)), tm1⟩ from
        Reach.prefix' hx (hs tm1)
      cases rest with
      | none =>
        have hRC' : RC = ([], T.2) := by rw [← hRC]; simp [desugarC]
        have hEE : endC lt (.elif isIf c thn .none) = endL lt thn := by simp [endC]
        subst hRC'
        simp only [gotoEnd, List.nil_append, hEE]
        rw [St.setTime_self h1]
        exact (ExecS.label_here h1).trans (ExecS.label_here h1)
      | els b' =>
        simp only [gotoEnd, List.cons_append, List.nil_append]
        have hj := hctx.jump' (A := (lt, .cjmp (!isIf) c n) :: (T.1 ++ ((endL lt thn, .goto ve) :: (endL lt thn, .label n) :: RC.1))) (Y := R.1) (t := endC lt (.elif isIf c thn (.els b'))) (l := ve) (by simp [gotoEnd]) hve (by
          simp
          refine ⟨fun h => ?_, by omega, fun h => ?_⟩
          · have := hrt.2 ve h; omega
          · have := hrc.2 ve h; omega) ⟨st1, tm1⟩
        exact (ExecS.jump (eff_goto (wait_self h1)) hj).trans (ExecS.label_here (by simp))
      | elif i' c' t' r' =>
        simp only [gotoEnd, List.cons_append, List.nil_append]
        have hj := hctx.jump' (A := (lt, .cjmp (!isIf) c n) :: (T.1 ++ ((endL lt thn, .goto ve) :: (endL lt thn, .label n) :: RC.1))) (Y := R.1) (t := endC lt (.elif isIf c thn (.elif i' c' t' r'))) (l := ve) (by simp [gotoEnd]) hve (by
          simp
          refine ⟨fun h => ?_, by omega, fun h => ?_⟩
          · have := hrt.2 ve h; omega
          · have := hrc.2 ve h; omega) ⟨st1, tm1⟩
        exact (ExecS.jump (eff_goto (wait_self h1)) hj).trans (ExecS.label_here (by simp))
  | chainTBrk lt isIf c thn rest ss st st1 hcond _ ihb =>
    refine ⟨by simp only [SimT], ?_⟩
    simp only [SimE]
    intro brk ve n pre post P tm stf hctx hve hven hmc hm hwf
    simp only [MonoC] at hmc
    have hcode : desugarC k brk ve n lt (.elif isIf c thn rest) = ((lt, .cjmp (!isIf) c n) :: ((desugarB k brk (n+1) lt thn).1 ++ (gotoEnd (endL lt thn) ve rest ++ (endL lt thn, .label n) :: (desugarC k brk ve (desugarB k brk (n+1) lt thn).2 (endL lt thn) rest).1)), (desugarC k brk ve (desugarB k brk (n+1) lt thn).2 (endL lt thn) rest).2) := by
      simp [desugarC, desugarB, List.append_assoc]
    rw [hcode] at hctx ⊢
    have hrt := rangeB k brk (n+1) lt thn
    have hrc := rangeC k brk ve (desugarB k brk (n+1) lt thn).2 (endL lt thn) rest
    have hrs := rangeL k brk (desugarC k brk ve (desugarB k brk (n+1) lt thn).2 (endL lt thn) rest).2 (endC lt (.elif isIf c thn rest)) ss
    have ihb2 := ihb.2
    simp only [SimE] at ihb2
    generalize hT : desugarB k brk (n+1) lt thn = T at *
    generalize hRC : desugarC k brk ve T.2 (endL lt thn) rest = RC at *
    generalize hR : desugarL k brk RC.2 (endC lt (.elif isIf c thn rest)) ss = R at *
    simp only [List.cons_append, List.append_assoc] at hctx ⊢
    have hctxb : Ctx P (pre ++ [(lt, .cjmp (!isIf) c n)]) T.1 (gotoEnd (endL lt thn) ve rest ++ ((endL lt thn, .label n) :: (RC.1 ++ (endC lt (.elif isIf c thn rest), .label ve) :: R.1)) ++ post) (n+1) T.2 :=
      hctx.sub (A := [(lt, .cjmp (!isIf) c n)]) (by simp) (by simp) (by omega) (by omega)
    have hb := ihb2 brk (n+1) _ _ P tm (st.setTime lt) (by rw [hT]; exact hctxb) (by simp) hmc.1 rfl
    rw [hT] at hb
    have hstep1 := ExecS.next (P := P) (c := T.1 ++ (gotoEnd (endL lt thn) ve rest ++ (endL lt thn, .label n) :: (RC.1 ++ (endC lt (.elif isIf c thn rest), .label ve) :: (R.1 ++ post)))) (eff_cjmp_no (tm := tm) (isIf := !isIf) (c := c) (l := n) hwf (by simp [hcond]))
    refine Reach.prefix' hstep1 ?_
    simp only [List.append_assoc, List.cons_append] at hb
    exact Reach.brk_of hb (by omega) (by omega)
  | chainF lt isIf c thn rest ss st r hcond _ ih =>
    have hE : endC lt (.elif isIf c thn rest) = endC (endL lt thn) rest := by simp [endC]
    refine ⟨?_, ?_⟩
    · cases r with
      | brk _ => simp only [SimT]
      | done st' =>
        simp only [SimT]
        intro hmc hm
        simp only [MonoC] at hmc
        have := ih.1
        simp only [SimT] at this
        rw [hE] at hm ⊢
        exact this hmc.2 hm
    · simp only [SimE]
      intro brk ve n pre post P tm stf hctx hve hven hmc hm hwf
      simp only [MonoC] at hmc
      have hcode : desugarC k brk ve n lt (.elif isIf c thn rest) = ((lt, .cjmp (!isIf) c n) :: ((desugarB k brk (n+1) lt thn).1 ++ (gotoEnd (endL lt thn) ve rest ++ (endL lt thn, .label n) :: (desugarC k brk ve (desugarB k brk (n+1) lt thn).2 (endL lt thn) rest).1)), (desugarC k brk ve (desugarB k brk (n+1) lt thn).2 (endL lt thn) rest).2) := by
        simp [desugarC, desugarB, List.append_assoc]
      rw [hcode] at hctx ⊢
      rw [hE] at hctx hm ⊢
      have hrt := rangeB k brk (n+1) lt thn
      have hrc := rangeC k brk ve (desugarB k brk (n+1) lt thn).2 (endL lt thn) rest
      have hrs := rangeL k brk (desugarC k brk ve (desugarB k brk (n+1) lt thn).2 (endL lt thn) rest).2 (endC (endL lt thn) rest) ss
      have ih2 := ih.2
      simp only [SimE] at ih2
      have ih3 := ih2 brk ve (desugarB k brk (n+1) lt thn).2
      generalize hT : desugarB k brk (n+1) lt thn = T at *
      generalize hRC : desugarC k brk ve T.2 (endL lt thn) rest = RC at *
      generalize hR : desugarL k brk RC.2 (endC (endL lt thn) rest) ss = R at *
      simp only [List.cons_append, List.append_assoc] at hctx ⊢
      have hctx' : Ctx P (pre ++ ((lt, .cjmp (!isIf) c n) :: (T.1 ++ (gotoEnd (endL lt thn) ve rest ++ [(endL lt thn, .label n)])))) (RC.1 ++ (endC (endL lt thn) rest, .label ve) :: R.1) post T.2 R.2 :=
        hctx.tail (by simp) (fun l hl => by
          simp at hl
          rcases hl with hl | rfl
          · have := hrt.2 l hl; omega
          · omega) (by omega) (Nat.le_refl _)
      have hve' : ve ∉ labelsOf (pre ++ ((lt, .cjmp (!isIf) c n) :: (T.1 ++ (gotoEnd (endL lt thn) ve rest ++ [(endL lt thn, .label n)])))) := by
        simp
        refine ⟨hve, fun h => ?_, by omega⟩
        have := hrt.2 ve h; omega
      have hr := ih3 _ post P tm (st.setTime (endL lt thn)) hctx' hve' (by omega) hmc.2 hm (wait_setTime _ _)
      -- the conditional jump is taken
      have hj := hctx.jump (A := (lt, .cjmp (!isIf) c n) :: (T.1 ++ gotoEnd (endL lt thn) ve rest)) (Y := RC.1 ++ (endC (endL lt thn) rest, .label ve) :: R.1) (t := endL lt thn) (l := n) (by simp) (by omega) (by
          simp
          intro h
          have := hrt.2 n h; omega) ⟨st.setTime lt, tm⟩
      have hcj : c.evalB (st.setTime lt).regs = !isIf := by
        simp at hcond ⊢
        cases isIf <;> simp_all
      have hstep := ExecS.jump (P := P) (c := T.1 ++ (gotoEnd (endL lt thn) ve rest ++ (endL lt thn, .label n) :: (RC.1 ++ (endC (endL lt thn) rest, .label ve) :: (R.1 ++ post)))) (eff_cjmp_yes (tm := tm) (isIf := !isIf) (c := c) (l := n) hwf hcj) hj
      simp only [FS.setTime_mk, St.setTime_setTime, List.append_assoc, List.cons_append] at hstep
      refine Reach.prefix' (hstep.trans (ExecS.label_here (by simp))) ?_
      exact hr.mono (by omega) (Nat.le_refl _)
  | iter lt s j ss st st1 r _ _ ihb iha =>
    have ihb1 := ihb.1
    simp only [SimT] at ihb1
    refine ⟨?_, ?_⟩
    · cases r with
      | brk _ => simp only [SimT]
      | done st' =>
        simp only [SimT]
        intro hle hmb hms
        have h1 := ihb1 hle hmb
        have := iha.1
        simp only [SimT] at this
        exact this (by rw [h1]; exact Int.le_refl _) hmb hms
    · simp only [SimE]
      intro hl brk n pre post P tm hctx hle hmb hms hcnt
      have h1 := ihb1 hle hmb
      have hf := lay_facts k n lt (endL lt s.body) s hl
      have hr := loop_ranges k brk n lt s ss
      have ihb2 := ihb.2
      have iha2 := iha.2
      simp only [SimE] at ihb2 iha2
      have hb := ihb2 n _ _ _ P tm st (ctx_body hl hctx) hle hmb rfl
      refine Reach.seq (brk1 := n) (b := n) (b' := (desugarL k brk n lt (s :: ss)).2) hb
        (fun tm1 hfr => iha2 hl brk n pre post P tm1 hctx h1 hmb hms (hcnt.frame hfr hf.2.2.1))
        (by omega) (by rw [loop_snd _ _ _ _ _ _ hl]; omega) (Nat.le_refl _) (Nat.le_refl _)
  | iterBrk lt s j ss st st1 r _ _ ihb ihs =>
    refine ⟨?_, ?_⟩
    · cases r with
      | brk _ => simp only [SimT]
      | done st' =>
        simp only [SimT]
        intro hle hmb hms
        have := ihs.1
        simp only [SimT] at this
        exact this (by simp) hms
    · simp only [SimE]
      intro hl brk n pre post P tm hctx hle hmb hms hcnt
      have hf := lay_facts k n lt (endL lt s.body) s hl
      have hr := loop_ranges k brk n lt s ss
      have ihb2 := ihb.2
      have ihs2 := ihs.2
      simp only [SimE] at ihb2 ihs2
      obtain ⟨tm1, hfr, hx⟩ := ihb2 n _ _ _ P tm st (ctx_body hl hctx) hle hmb rfl
      have hgo := hx _ _ (jump_le hl hctx ⟨st1, tm1⟩)
      have hs := ihs2 brk _ _ post P tm1 (ctx_rest hl hctx) (by simp) hms
      rw [loop_snd _ _ _ _ _ _ hl]
      exact Reach.prefix (hgo.trans (ExecS.label_here (by simp))) (hfr.mono (by omega) (by omega)) (hs.mono (by omega) (Nat.le_refl _))
  | loop lt b ss st st0 r hw _ ih =>
    have h0 : st.time ≤ lt → st0.time = lt := fun h => wait_time_of_le hw h
    have hl : (Stmt.loop b).isLoop = true := rfl
    refine ⟨?_, ?_⟩
    · cases r with
      | brk _ => simp only [SimT]
      | done st' =>
        simp only [SimT]
        intro hle hm
        simp only [MonoL, MonoS, endS] at hm
        have := ih.1
        simp only [SimT, body_of_loop] at this
        simpa [endL, endS] using this (by rw [h0 hle]; exact Int.le_refl _) hm.1 hm.2
    · simp only [SimE]
      intro brk n pre post P tm hctx hle hm
      simp only [MonoL, MonoS, endS] at hm
      have ih2 := ih.2
      simp only [SimE] at ih2
      have := ih2 hl brk n pre post P tm hctx (by rw [h0 hle]; exact Int.le_refl _) hm.1 hm.2 trivial
      rw [loop_code k brk n lt _ ss post hl]
      exact Reach.prefix' (ExecS.next (eff_label hw)) this
  | againLoop lt b j ss st r _ ih =>
    have hl : (Stmt.loop b).isLoop = true := rfl
    refine ⟨?_, ?_⟩
    · cases r with
      | brk _ => simp only [SimT]
      | done st' =>
        simp only [SimT]
        intro hle hmb hms
        have := ih.1
        simp only [SimT] at this
        exact this (by simp) hmb hms
    · simp only [SimE]
      intro _ brk n pre post P tm hctx ht hmb hms hcnt
      have ih2 := ih.2
      simp only [SimE] at ih2
      have := ih2 hl brk n pre post P tm hctx (by simp) hmb hms hcnt
      have hj := jump_lp hl hctx ⟨st, tm⟩
      exact Reach.prefix' ((ExecS.jump (c := tailPos k brk n lt (.loop b) ss post) (eff_goto (wait_self ht)) hj).trans (ExecS.label_here (by simp))) this
  | doWhile lt c b ss st st0 r hw _ ih =>
    have h0 : st.time ≤ lt → st0.time = lt := fun h => wait_time_of_le hw h
    have hl : (Stmt.doWhile c b).isLoop = true := rfl
    refine ⟨?_, ?_⟩
    · cases r with
      | brk _ => simp only [SimT]
      | done st' =>
        simp only [SimT]
        intro hle hm
        simp only [MonoL, MonoS, endS] at hm
        have := ih.1
        simp only [SimT, body_of_doWhile] at this
        simpa [endL, endS] using this (by rw [h0 hle]; exact Int.le_refl _) hm.1 hm.2
    · simp only [SimE]
      intro brk n pre post P tm hctx hle hm
      simp only [MonoL, MonoS, endS] at hm
      have ih2 := ih.2
      simp only [SimE] at ih2
      have := ih2 hl brk n pre post P tm hctx (by rw [h0 hle]; exact Int.le_refl _) hm.1 hm.2 trivial
      rw [loop_code k brk n lt _ ss post hl]
      exact Reach.prefix' (ExecS.next (eff_label hw)) this
  | againDoT lt c b j ss st r hc _ ih =>
    have hl : (Stmt.doWhile c b).isLoop = true := rfl
    refine ⟨?_, ?_⟩
    · cases r with
      | brk _ => simp only [SimT]
      | done st' =>
        simp only [SimT]
        intro hle hmb hms
        have := ih.1
        simp only [SimT] at this
        exact this (by simp) hmb hms
    · simp only [SimE]
      intro _ brk n pre post P tm hctx ht hmb hms hcnt
      have ih2 := ih.2
      simp only [SimE] at ih2
      have := ih2 hl brk n pre post P tm hctx (by simp) hmb hms hcnt
      have hj := jump_lp hl hctx ⟨st, tm⟩
      exact Reach.prefix' ((ExecS.jump (c := tailPos k brk n lt (.doWhile c b) ss post) (eff_cjmp_yes (wait_self ht) hc) hj).trans (ExecS.label_here (by simp))) this
  | againDoF lt c b j ss st r hc _ ih =>
    have hl : (Stmt.doWhile c b).isLoop = true := rfl
    refine ⟨?_, ?_⟩
    · cases r with
      | brk _ => simp only [SimT]
      | done st' =>
        simp only [SimT]
        intro hle hmb hms
        have := ih.1
        simp only [SimT] at this
        exact this hle hms
    · simp only [SimE]
      intro _ brk n pre post P tm hctx ht hmb hms hcnt
      have ih2 := ih.2
      simp only [SimE] at ih2
      have := ih2 brk _ _ post P tm (ctx_rest hl hctx) (by rw [ht]; exact Int.le_refl _) hms
      exact Reach.prefix' (ExecS.next (c := tailPos k brk n lt (.doWhile c b) ss post) (eff_cjmp_no (isIf := true) (l := (lay k n lt (endL lt (Stmt.doWhile c b).body) (.doWhile c b)).lp) (wait_self ht) (by simp [hc]))) (exit_tail hl hctx ht this)
  | whileT lt c b ss st st0 r hw hc _ ih =>
    have h0 : st.time ≤ lt → st0.time = lt := fun h => wait_time_of_le hw h
    have hl : (Stmt.while_ c b).isLoop = true := rfl
    refine ⟨?_, ?_⟩
    · cases r with
      | brk _ => simp only [SimT]
      | done st' =>
        simp only [SimT]
        intro hle hm
        simp only [MonoL, MonoS, endS] at hm
        have := ih.1
        simp only [SimT, body_of_while] at this
        simpa [endL, endS] using this (by rw [h0 hle]; exact Int.le_refl _) hm.1 hm.2
    · simp only [SimE]
      intro brk n pre post P tm hctx hle hm
      simp only [MonoL, MonoS, endS] at hm
      have ih2 := ih.2
      simp only [SimE] at ih2
      have := ih2 hl brk n pre post P tm hctx (by rw [h0 hle]; exact Int.le_refl _) hm.1 hm.2 trivial
      rw [loop_code k brk n lt _ ss post hl]
      have hh : (lay k n lt (endL lt (Stmt.while_ c b).body) (.while_ c b)).head = [(lt, .cjmp false c (n+1))] := rfl
      rw [hh]
      simp only [List.cons_append, List.nil_append]
      exact Reach.prefix' ((ExecS.next (eff_cjmp_no hw (by simp [hc]))).trans (ExecS.label_here (h0 hle))) this
  | whileF lt c b ss st st0 r hw hc _ ih =>
    have h0 : st.time ≤ lt → st0.time = lt := fun h => wait_time_of_le hw h
    have hl : (Stmt.while_ c b).isLoop = true := rfl
    refine ⟨?_, ?_⟩
    · cases r with
      | brk _ => simp only [SimT]
      | done st' =>
        simp only [SimT]
        intro hle hm
        simp only [MonoL, MonoS, endS] at hm
        have := ih.1
        simp only [SimT] at this
        simpa [endL, endS] using this (by simp) hm.2
    · simp only [SimE]
      intro brk n pre post P tm hctx hle hm
      simp only [MonoL, MonoS, endS] at hm
      have ih2 := ih.2
      simp only [SimE] at ih2
      have := ih2 brk _ _ post P tm (ctx_rest hl hctx) (by simp) hm.2
      have hj := jump_tail (z := n+1) (tl := []) hl hctx rfl ⟨st0, tm⟩
      rw [loop_code k brk n lt _ ss post hl]
      have hh : (lay k n lt (endL lt (Stmt.while_ c b).body) (.while_ c b)).head = [(lt, .cjmp false c (n+1))] := rfl
      rw [hh]
      simp only [List.cons_append, List.nil_append]
      exact Reach.prefix' (ExecS.jump (eff_cjmp_yes hw hc) hj) (exit_tail hl hctx (by simp [body_of_while]) this)
  | againWhT lt c b j ss st r hc _ ih =>
    have hl : (Stmt.while_ c b).isLoop = true := rfl
    refine ⟨?_, ?_⟩
    · cases r with
      | brk _ => simp only [SimT]
      | done st' =>
        simp only [SimT]
        intro hle hmb hms
        have := ih.1
        simp only [SimT] at this
        exact this (by simp) hmb hms
    · simp only [SimE]
      intro _ brk n pre post P tm hctx ht hmb hms hcnt
      have ih2 := ih.2
      simp only [SimE] at ih2
      have := ih2 hl brk n pre post P tm hctx (by simp) hmb hms hcnt
      have hj := jump_lp hl hctx ⟨st, tm⟩
      exact Reach.prefix' ((ExecS.jump (c := tailPos k brk n lt (.while_ c b) ss post) (eff_cjmp_yes (wait_self ht) hc) hj).trans (ExecS.label_here (by simp))) this
  | againWhF lt c b j ss st r hc _ ih =>
    have hl : (Stmt.while_ c b).isLoop = true := rfl
    refine ⟨?_, ?_⟩
    · cases r with
      | brk _ => simp only [SimT]
      | done st' =>
        simp only [SimT]
        intro hle hmb hms
        have := ih.1
        simp only [SimT] at this
        exact this hle hms
    · simp only [SimE]
      intro _ brk n pre post P tm hctx ht hmb hms hcnt
      have ih2 := ih.2
      simp only [SimE] at ih2
      have := ih2 brk _ _ post P tm (ctx_rest hl hctx) (by rw [ht]; exact Int.le_refl _) hms
      exact Reach.prefix' (ExecS.next (c := tailPos k brk n lt (.while_ c b) ss post) (eff_cjmp_no (isIf := true) (l := (lay k n lt (endL lt (Stmt.while_ c b).body) (.while_ c b)).lp) (wait_self ht) (by simp [hc]))) (exit_tail hl hctx ht this)
  | timesNeg lt count b ss st st0 r hm' _ _ _ _ => exact absurd hm' (by simp)
  | timesZ lt count b ss st st0 r hw hz _ ih =>
    have h0 : st.time ≤ lt → st0.time = lt := fun h => wait_time_of_le hw h
    have hl : (Stmt.times none count b).isLoop = true := rfl
    refine ⟨?_, ?_⟩
    · cases r with
      | brk _ => simp only [SimT]
      | done st' =>
        simp only [SimT]
        intro hle hm
        simp only [MonoL, MonoS, endS] at hm
        have := ih.1
        simp only [SimT] at this
        simpa [endL, endS] using this (by simp) hm.2
    · simp only [SimE]
      intro brk n pre post P tm hctx hle hm
      simp only [MonoL, MonoS, endS] at hm
      have hf := lay_facts k n lt (endL lt (Stmt.times none count b).body) _ hl
      have hr := loop_ranges k brk n lt (.times none count b) ss
      have ih2 := ih.2
      simp only [SimE] at ih2
      have := ih2 brk _ _ post P (fun j => if j = n + 1 then count.eval st0.regs else tm j) (ctx_rest hl hctx) (by simp) hm.2
      have hj := jump_tail (z := n+2) (tl := [(endL lt b, .scopeEnd (n+1))]) hl hctx rfl ⟨st0, fun j => if j = n + 1 then count.eval st0.regs else tm j⟩
      have hN := loop_snd k brk n lt (.times none count b) ss hl
      rw [loop_code k brk n lt _ ss post hl]
      have hh : (lay k n lt (endL lt (Stmt.times none count b).body) (.times none count b)).head = [(lt, .decl (n+1)), (lt, .assign (.tmp (n+1)) count), (lt, .jz (.tmp (n+1)) (n+2))] := by
        simp [lay, zeroTest, needZero_of_eval_zero hz]
      rw [hh]
      simp only [List.cons_append, List.nil_append]
      refine Reach.prefix (((ExecS.next (eff_decl hw)).trans (ExecS.next (eff_assign_tmp (wait_self (h0 hle))))).trans (ExecS.jump (eff_jz_yes (wait_self (h0 hle)) (by simp [FS.get, hz])) hj)) ?_ (exit_tail hl hctx (by simp [body_of_times]) this)
      intro j hj'
      have : j ≠ n + 1 := by rw [hN] at hj'; have := hf.2.2.1; omega
      simp [this]
  | timesP lt count b ss st st0 r hw hp _ ih =>
    have h0 : st.time ≤ lt → st0.time = lt := fun h => wait_time_of_le hw h
    have hl : (Stmt.times none count b).isLoop = true := rfl
    refine ⟨?_, ?_⟩
    · cases r with
      | brk _ => simp only [SimT]
      | done st' =>
        simp only [SimT]
        intro hle hm
        simp only [MonoL, MonoS, endS] at hm
        have := ih.1
        simp only [SimT, body_of_times] at this
        simpa [endL, endS] using this (by simp) hm.1 hm.2
    · simp only [SimE]
      intro brk n pre post P tm hctx hle hm
      simp only [MonoL, MonoS, endS] at hm
      have hf := lay_facts k n lt (endL lt (Stmt.times none count b).body) _ hl
      have hr := loop_ranges k brk n lt (.times none count b) ss
      have ih2 := ih.2
      simp only [SimE] at ih2
      have := ih2 hl brk n pre post P (fun j => if j = n + 1 then count.eval st0.regs else tm j) hctx (by simp) hm.1 hm.2 (by simp [CounterOK, hp])
      rw [St.setTime_self (h0 hle)] at this
      have hN := loop_snd k brk n lt (.times none count b) ss hl
      rw [loop_code k brk n lt _ ss post hl]
      have hh : (lay k n lt (endL lt (Stmt.times none count b).body) (.times none count b)).head = (lt, .decl (n+1)) :: (lt, .assign (.tmp (n+1)) count) :: zeroTest lt (.tmp (n+1)) (n+2) count := by
        simp [lay]
      rw [hh]
      simp only [List.cons_append, List.nil_append]
      have hne : count.eval st0.regs ≠ 0 := fun e => by rw [e] at hp; exact absurd hp (by decide)
      refine Reach.prefix ((((ExecS.next (eff_decl hw)).trans (ExecS.next (eff_assign_tmp (wait_self (h0 hle))))).trans (exec_zeroTest_skip (h0 hle) (by simp [FS.get, hne]))).trans (ExecS.label_here (h0 hle))) ?_ this
      intro j hj'
      have : j ≠ n + 1 := by rw [hN] at hj'; have := hf.2.2.1; omega
      simp [this]
  | againTimesN lt count b j ss st r hne _ ih =>
    have hl : (Stmt.times none count b).isLoop = true := rfl
    refine ⟨?_, ?_⟩
    · cases r with
      | brk _ => simp only [SimT]
      | done st' =>
        simp only [SimT]
        intro hle hmb hms
        have := ih.1
        simp only [SimT] at this
        exact this (by simp) hmb hms
    · simp only [SimE]
      intro _ brk n pre post P tm hctx ht hmb hms hcnt
      simp only [CounterOK] at hcnt
      have hf := lay_facts k n lt (endL lt (Stmt.times none count b).body) _ hl
      have hr := loop_ranges k brk n lt (.times none count b) ss
      have hN := loop_snd k brk n lt (.times none count b) ss hl
      have ih2 := ih.2
      simp only [SimE] at ih2
      have hpos := int32_pred_pos j hcnt.2 hne
      have := ih2 hl brk n pre post P (fun i => if i = n + 1 then j - 1 else tm i) hctx (by simp) hmb hms (by simp [CounterOK, hpos])
      have hj := jump_lp hl hctx ⟨st, fun i => if i = n + 1 then j - 1 else tm i⟩
      have heff : effect (endL lt b, .cntjmp k (.tmp (n+1)) (n+3)) ⟨st, tm⟩ = some (⟨st, fun i => if i = n + 1 then j - 1 else tm i⟩, some (n+3)) := by
        have := eff_cntjmp_yes (tm := tm) (k := k) (v := .tmp (n+1)) (l := n+3) (wait_self ht) (by
          simp only [FS.get, hcnt.1]
          exact test_true_of_ne k _ hne (fun _ => hpos))
        simpa [FS.get, FS.set, hcnt.1, body_of_times] using this
      refine Reach.prefix ((ExecS.jump (c := tailPos k brk n lt (.times none count b) ss post) heff hj).trans (ExecS.label_here (by simp))) ?_ this
      intro i hi
      have : i ≠ n + 1 := by rw [hN] at hi; have := hf.2.2.1; omega
      simp [this]
  | againTimesNEnd lt count b j ss st r hz _ ih =>
    have hl : (Stmt.times none count b).isLoop = true := rfl
    refine ⟨?_, ?_⟩
    · cases r with
      | brk _ => simp only [SimT]
      | done st' =>
        simp only [SimT]
        intro hle hmb hms
        have := ih.1
        simp only [SimT] at this
        exact this hle hms
    · simp only [SimE]
      intro _ brk n pre post P tm hctx ht hmb hms hcnt
      simp only [CounterOK] at hcnt
      have hf := lay_facts k n lt (endL lt (Stmt.times none count b).body) _ hl
      have hr := loop_ranges k brk n lt (.times none count b) ss
      have hN := loop_snd k brk n lt (.times none count b) ss hl
      have ih2 := ih.2
      simp only [SimE] at ih2
      have := ih2 brk _ _ post P (fun i => if i = n + 1 then j - 1 else tm i) (ctx_rest hl hctx) (by rw [ht]; exact Int.le_refl _) hms
      have heff : effect (endL lt b, .cntjmp k (.tmp (n+1)) (n+3)) ⟨st, tm⟩ = some (⟨st, fun i => if i = n + 1 then j - 1 else tm i⟩, none) := by
        have := eff_cntjmp_no (tm := tm) (k := k) (v := .tmp (n+1)) (l := n+3) (wait_self ht) (by
          simp only [FS.get, hcnt.1, hz]
          exact test_zero k)
        simpa [FS.get, FS.set, hcnt.1, body_of_times] using this
      refine Reach.prefix (ExecS.next (c := tailPos k brk n lt (.times none count b) ss post) heff) ?_ (exit_tail hl hctx ht this)
      intro i hi
      have : i ≠ n + 1 := by rw [hN] at hi; have := hf.2.2.1; omega
      simp [this]
  | timesSZ lt x count b ss st st0 r hw hz _ ih =>
    have h0 : st.time ≤ lt → st0.time = lt := fun h => wait_time_of_le hw h
    have hl : (Stmt.times (some x) count b).isLoop = true := rfl
    refine ⟨?_, ?_⟩
    · cases r with
      | brk _ => simp only [SimT]
      | done st' =>
        simp only [SimT]
        intro hle hm
        simp only [MonoL, MonoS, endS] at hm
        have := ih.1
        simp only [SimT] at this
        simpa [endL, endS] using this (by simp) hm.2
    · simp only [SimE]
      intro brk n pre post P tm hctx hle hm
      simp only [MonoL, MonoS, endS] at hm
      have ih2 := ih.2
      simp only [SimE] at ih2
      have := ih2 brk _ _ post P tm (ctx_rest hl hctx) (by simp) hm.2
      have hj := jump_tail (z := n+1) (tl := []) hl hctx rfl ⟨st0.setReg x 0, tm⟩
      rw [loop_code k brk n lt _ ss post hl]
      have hh : (lay k n lt (endL lt (Stmt.times (some x) count b).body) (.times (some x) count b)).head = [(lt, .assign (.reg x) count), (lt, .jz (.reg x) (n+1))] := by
        simp [lay, zeroTest, needZero_of_eval_zero hz]
      rw [hh]
      simp only [List.cons_append, List.nil_append]
      have hassign := eff_assign_reg (tm := tm) (r := x) (e := count) hw
      rw [hz] at hassign
      exact Reach.prefix' ((ExecS.next hassign).trans (ExecS.jump (eff_jz_yes (wait_self (by simpa using h0 hle)) (by simp [FS.get, St.setReg])) hj)) (exit_tail hl hctx (by simp [body_of_times]) this)
  | timesSP lt x count b ss st st0 r hw hp _ ih =>
    have h0 : st.time ≤ lt → st0.time = lt := fun h => wait_time_of_le hw h
    have hl : (Stmt.times (some x) count b).isLoop = true := rfl
    refine ⟨?_, ?_⟩
    · cases r with
      | brk _ => simp only [SimT]
      | done st' =>
        simp only [SimT]
        intro hle hm
        simp only [MonoL, MonoS, endS] at hm
        have := ih.1
        simp only [SimT, body_of_times] at this
        simpa [endL, endS] using this (by simp) hm.1 hm.2
    · simp only [SimE]
      intro brk n pre post P tm hctx hle hm
      simp only [MonoL, MonoS, endS] at hm
      have ih2 := ih.2
      simp only [SimE] at ih2
      have := ih2 hl brk n pre post P tm hctx (by simp) hm.1 hm.2 trivial
      rw [St.setTime_self (by simpa using h0 hle)] at this
      rw [loop_code k brk n lt _ ss post hl]
      have hh : (lay k n lt (endL lt (Stmt.times (some x) count b).body) (.times (some x) count b)).head = (lt, .assign (.reg x) count) :: zeroTest lt (.reg x) (n+1) count := by
        simp [lay]
      rw [hh]
      simp only [List.cons_append, List.nil_append]
      exact Reach.prefix' (((ExecS.next (eff_assign_reg hw)).trans (exec_zeroTest_skip (by simpa using h0 hle) (by simp [FS.get, St.setReg, hp]))).trans (ExecS.label_here (by simpa using h0 hle))) this
  | againTimesS lt x count b j ss st r hmin hne hgt _ ih =>
    have hl : (Stmt.times (some x) count b).isLoop = true := rfl
    refine ⟨?_, ?_⟩
    · cases r with
      | brk _ => simp only [SimT]
      | done st' =>
        simp only [SimT]
        intro hle hmb hms
        have := ih.1
        simp only [SimT] at this
        exact this (by simp) hmb hms
    · simp only [SimE]
      intro _ brk n pre post P tm hctx ht hmb hms hcnt
      have ih2 := ih.2
      simp only [SimE] at ih2
      have := ih2 hl brk n pre post P tm hctx (by simp) hmb hms trivial
      have hj := jump_lp hl hctx ⟨st.setReg x (st.regs x - 1), tm⟩
      have heff : effect (endL lt b, .cntjmp k (.reg x) (n+2)) ⟨st, tm⟩ = some (⟨st.setReg x (st.regs x - 1), tm⟩, some (n+2)) := by
        have := eff_cntjmp_yes (tm := tm) (k := k) (v := .reg x) (l := n+2) (wait_self ht) (by
          simp only [FS.get]
          exact test_true_of_ne k _ hne (fun e => hgt (by rw [e])))
        simpa [FS.get, FS.set, body_of_times] using this
      exact Reach.prefix' ((ExecS.jump (c := tailPos k brk n lt (.times (some x) count b) ss post) heff hj).trans (ExecS.label_here (by simp))) this
  | againTimesSEnd lt x count b j ss st r hmin hz _ ih =>
    have hl : (Stmt.times (some x) count b).isLoop = true := rfl
    refine ⟨?_, ?_⟩
    · cases r with
      | brk _ => simp only [SimT]
      | done st' =>
        simp only [SimT]
        intro hle hmb hms
        have := ih.1
        simp only [SimT] at this
        exact this (by simpa [body_of_times] using hle) hms
    · simp only [SimE]
      intro _ brk n pre post P tm hctx ht hmb hms hcnt
      have ih2 := ih.2
      simp only [SimE] at ih2
      have := ih2 brk _ _ post P tm (ctx_rest hl hctx) (by simp [ht, body_of_times]) hms
      have heff : effect (endL lt b, .cntjmp k (.reg x) (n+2)) ⟨st, tm⟩ = some (⟨st.setReg x 0, tm⟩, none) := by
        have := eff_cntjmp_no (tm := tm) (k := k) (v := .reg x) (l := n+2) (wait_self ht) (by
          simp only [FS.get, hz]
          exact test_zero k)
        simpa [FS.get, FS.set, body_of_times, hz] using this
      exact Reach.prefix' (ExecS.next (c := tailPos k brk n lt (.times (some x) count b) ss post) heff) (exit_tail hl hctx (by simpa using ht) this)

end TruthModel.Blocks
