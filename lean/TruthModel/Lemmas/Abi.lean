import TruthModel.Model.Abi
/-
Helper lemmas for C12 / C15 (byte codecs, NUL trimming, the string arm).  Property theorems
live in Props/C12.lean and Props/C15.lean.
-/
namespace TruthModel.Abi
set_option linter.unusedSimpArgs false

theorem leBytes_length (n x : Nat) : (leBytes n x).length = n := by
  induction n generalizing x with
  | zero => rfl
  | succ n ih => simp [leBytes, ih]

theorem leNat_leBytes (n x : Nat) : leNat (leBytes n x) = x % 256 ^ n := by
  induction n generalizing x with
  | zero => simp [leBytes, leNat, Nat.mod_one]
  | succ n ih =>
    simp only [leBytes, leNat, ih]
    have : (UInt8.ofNat (x % 256)).toNat = x % 256 := by
      simp [UInt8.toNat_ofNat']
    rw [this, Nat.pow_succ, Nat.mul_comm (256 ^ n) 256, Nat.mod_mul]

theorem leNat_lt (bs : Bytes) : leNat bs < 256 ^ bs.length := by
  induction bs with
  | nil => simp [leNat]
  | cons b bs ih =>
    simp only [leNat, List.length_cons, Nat.pow_succ]
    have := b.toNat_lt
    omega

theorem leBytes_leNat (bs : Bytes) : leBytes bs.length (leNat bs) = bs := by
  induction bs with
  | nil => rfl
  | cons b bs ih =>
    simp only [List.length_cons, leBytes, leNat]
    have hb := b.toNat_lt
    have h1 : (b.toNat + 256 * leNat bs) % 256 = b.toNat := by omega
    have h2 : (b.toNat + 256 * leNat bs) / 256 = leNat bs := by omega
    rw [h1, h2, ih]
    simp

theorem xor_cancel (b k : UInt8) : (b ^^^ k) ^^^ k = b := by
  rw [UInt8.xor_assoc, UInt8.xor_self, UInt8.xor_zero]

theorem xor_involutive (m : ByteMask) (bs : Bytes) : applyMask m (applyMask m bs) = bs := by
  induction bs generalizing m with
  | nil => rfl
  | cons b bs ih => simp [applyMask, xor_cancel, ih]

theorem applyMask_length (m : ByteMask) (bs : Bytes) : (applyMask m bs).length = bs.length := by
  induction bs generalizing m with
  | nil => rfl
  | cons b bs ih => simp [applyMask, ih]
theorem zeros_length (k : Nat) : (zeros k).length = k := by simp [zeros]

theorem zeros_any (k : Nat) : (zeros k).any (· != 0) = false := by
  simp [zeros]

theorem findIdx_nul (s t : Bytes) (h : s.contains 0 = false) :
    (s ++ 0 :: t).findIdx (· == 0) = s.length := by
  induction s with
  | nil => simp [List.findIdx_cons]
  | cons b s ih =>
    simp only [List.contains_cons, Bool.or_eq_false_iff] at h
    have hb : (b == 0) = false := by
      have := h.1
      cases hb : (b == 0) with
      | false => rfl
      | true => simp at hb; subst hb; simp at this
    simp [List.findIdx_cons, hb, ih h.2]

/-- `trim_after_pad` in general form: a NUL-free string followed by a NUL and anything -/
theorem trimFirstNul_append (s t : Bytes) (warn : Bool) (h : s.contains 0 = false) :
    trimFirstNul (s ++ 0 :: t) warn =
      (s, if warn && t.any (· != 0) then ["string will be truncated at first null"] else []) := by
  simp [trimFirstNul, findIdx_nul s t h]

theorem trim_after_pad (s : Bytes) (k : Nat) (warn : Bool) (h : s.contains 0 = false) :
    trimFirstNul (s ++ 0 :: zeros k) warn = (s, []) := by
  rw [trimFirstNul_append s _ warn h, zeros_any]; simp

/-- the furigana bytes that get appended -/
def fbOf (st : EncState) (furibug : Bool) : Bytes := if furibug then st.getD [] else []
/-- the eager NUL -/
def nulOf (size : StrSize) : Bytes := match size with | .fixed _ true => [] | _ => [0]

theorem strBody_eq (st : EncState) (size : StrSize) (furibug : Bool) (s : Bytes) :
    (strBody st size furibug s).1 = s ++ nulOf size ++ fbOf st furibug := by
  unfold strBody fbOf nulOf
  rcases size with ⟨len, _ | _⟩ | bs | bs <;> cases furibug <;> cases st <;> simp

theorem strPad_form (size : StrSize) (e2 e3 : Bytes) (h : strPad size e2 = .ok e3) :
    ∃ k, e3 = e2 ++ zeros k ∧
      (match size with
       | .fixed len _ => e3.length = len
       | .toBlobEnd bs | .pascal bs => e3.length < e2.length + bs + 1) := by
  cases size with
  | fixed len nl =>
    simp only [strPad] at h
    split at h
    · cases h
    · cases h; exact ⟨_, rfl, by simp [zeros]; omega⟩
  | toBlobEnd bs =>
    simp only [strPad] at h
    split at h
    · cases h
    · split at h
      · cases h
        refine ⟨_, rfl, ?_⟩
        simp only [nullPad, List.length_append, zeros_length]
        have : (e2.length + 1) % bs < bs := Nat.mod_lt _ (by omega)
        split <;> omega
      · cases h; exact ⟨0, by simp [zeros], by omega⟩
  | pascal bs =>
    simp only [strPad] at h
    split at h
    · cases h
    · split at h
      · cases h
        refine ⟨_, rfl, ?_⟩
        simp only [nullPad, List.length_append, zeros_length]
        have : (e2.length + 1) % bs < bs := Nat.mod_lt _ (by omega)
        split <;> omega
      · cases h; exact ⟨0, by simp [zeros], by omega⟩

theorem contains_append_zero (s t : Bytes) : (s ++ 0 :: t).contains 0 = true := by
  simp

theorem trim_decoded (st : EncState) (size : StrSize) (furibug : Bool) (s : Bytes) (k : Nat)
    (hs : s.contains 0 = false)
    (hq : ∀ len, size = .fixed len true → fbOf st furibug = []) :
    trimFirstNul
      (match size with
       | .fixed _ true =>
         if (s ++ nulOf size ++ fbOf st furibug ++ zeros k).contains 0
         then s ++ nulOf size ++ fbOf st furibug ++ zeros k
         else s ++ nulOf size ++ fbOf st furibug ++ zeros k ++ [0]
       | _ => s ++ nulOf size ++ fbOf st furibug ++ zeros k) (!furibug) = (s, []) := by
  have nonNulless : ∀ (t : Bytes), (furibug = false → t.any (· != 0) = false) →
      trimFirstNul (s ++ [0] ++ t) (!furibug) = (s, []) := by
    intro t ht
    have : s ++ [0] ++ t = s ++ 0 :: t := by simp
    rw [this, trimFirstNul_append s t _ hs]
    cases furibug with
    | true => simp
    | false => simp [ht rfl]
  have tailOk : furibug = false → (fbOf st furibug ++ zeros k).any (· != 0) = false := by
    intro hf; subst hf; simp [fbOf, zeros]
  rcases size with ⟨len, _ | _⟩ | bs | bs
  · -- fixed, with NUL
    simp only [nulOf]
    have := nonNulless (fbOf st furibug ++ zeros k) tailOk
    simpa [List.append_assoc] using this
  · -- fixed, nulless
    have hfb := hq len rfl
    simp only [nulOf, hfb, List.append_nil]
    cases k with
    | zero =>
      have hc : (s ++ zeros 0).contains 0 = false := by simpa [zeros] using hs
      simp only [hc]
      have : s ++ zeros 0 ++ [0] = s ++ 0 :: zeros 0 := by simp [zeros]
      rw [this]; exact trim_after_pad s 0 _ hs
    | succ k =>
      have hz : s ++ zeros (k + 1) = s ++ 0 :: zeros k := by simp [zeros, List.replicate_succ]
      rw [hz, contains_append_zero]
      simp only [if_true]
      exact trim_after_pad s k _ hs
  · simp only [nulOf]
    have := nonNulless (fbOf st furibug ++ zeros k) tailOk
    simpa [List.append_assoc] using this
  · simp only [nulOf]
    have := nonNulless (fbOf st furibug ++ zeros k) tailOk
    simpa [List.append_assoc] using this

theorem layout_nulfree (st : EncState) (size : StrSize) (furibug : Bool) (s : Bytes)
    (h : strLayoutOk st size furibug s = true) : s.contains 0 = false := by
  simp only [strLayoutOk, Bool.and_eq_true, Bool.not_eq_true'] at h
  exact h.1

theorem attrs_nulless_fb (st : EncState) (furibug : Bool) (len : Nat) (mask : ByteMask)
    (h : Enc.strAttrsOk (.str (.fixed len true) mask furibug) = true) : fbOf st furibug = [] := by
  simp only [Enc.strAttrsOk, Bool.true_and, Bool.not_eq_true'] at h
  subst h
  rfl

theorem take_left' (a b : Bytes) (n : Nat) (h : a.length = n) : (a ++ b).take n = a := by
  subst h; simp
theorem drop_left' (a b : Bytes) (n : Nat) (h : a.length = n) : (a ++ b).drop n = b := by
  subst h; simp

theorem decodeStr_encodeStr (st : EncState) (size : StrSize) (mask : ByteMask) (furibug : Bool)
    (s tl out : Bytes) (st2 : EncState)
    (hattr : Enc.strAttrsOk (.str size mask furibug) = true)
    (hok : strLayoutOk st size furibug s = true)
    (he : encodeStr st size mask furibug s = .ok (out, st2))
    (htl : ∀ bs, size = .toBlobEnd bs → tl = []) :
    decodeStr size mask furibug (out ++ tl) = .ok (s, [], tl) := by
  have hs := layout_nulfree st size furibug s hok
  have hb := strBody_eq st size furibug s
  unfold encodeStr at he
  generalize strBody st size furibug s = sb at he hb
  obtain ⟨e2, st1⟩ := sb
  simp only at he hb
  cases hp : strPad size e2 with
  | err c => rw [hp] at he; simp at he
  | panic p => rw [hp] at he; simp at he
  | ok e3 =>
    rw [hp] at he
    simp only [Outcome.ok.injEq, Prod.mk.injEq] at he
    obtain ⟨k, hk, hlen⟩ := strPad_form size e2 e3 hp
    have hun : applyMask mask (applyMask mask e3) = s ++ nulOf size ++ fbOf st furibug ++ zeros k := by
      rw [xor_involutive, hk, hb]
    have hq : ∀ len, size = .fixed len true → fbOf st furibug = [] := by
      intro len hsz; subst hsz; exact attrs_nulless_fb st furibug len mask hattr
    have htrim := trim_decoded st size furibug s k hs hq
    obtain ⟨hout, _⟩ := he
    rcases size with ⟨len, nl⟩ | bs | bs
    · -- fixed
      simp only [List.nil_append] at hout
      subst hout
      have hl : (applyMask mask e3).length = len := by rw [applyMask_length]; exact hlen
      simp only [decodeStr]
      have hge : ¬ ((applyMask mask e3 ++ tl).length < len) := by simp [hl]
      simp only [hge, if_false, take_left' _ _ _ hl, drop_left' _ _ _ hl, hun]
      cases nl <;> simp only [] at htrim ⊢ <;> rw [htrim]
    · -- toBlobEnd
      have : tl = [] := htl bs rfl
      subst this
      simp only [List.nil_append] at hout
      subst hout
      simp only [decodeStr, List.append_nil, Nat.lt_irrefl, if_false, List.take_length, List.drop_length, hun]
      simp only [] at htrim
      rw [htrim]
    · -- pascal
      subst hout
      have hlm : (applyMask mask e3).length = e3.length := applyMask_length _ _
      have hl4 : (leBytes 4 e3.length).length = 4 := leBytes_length _ _
      have hbound : e3.length < 4294967296 := by
        simp only [strLayoutOk, Bool.and_eq_true, decide_eq_true_eq] at hok
        have h2 := hok.2
        simp only at hlen
        have : e2.length = s.length + 1 + (fbOf st furibug).length := by
          rw [hb]; simp [nulOf]; omega
        have hfb : (fbOf st furibug).length = (if furibug = true then (st.getD []).length else 0) := by
          simp [fbOf]; split <;> simp
        omega
      simp only [decodeStr, List.append_assoc, hlm]
      have hge4 : ¬ ((leBytes 4 e3.length ++ (applyMask mask e3 ++ tl)).length < 4) := by
        simp [hl4]
      simp only [hge4, if_false, take_left' _ _ _ hl4, drop_left' _ _ _ hl4, leNat_leBytes]
      have hmod : e3.length % 256 ^ 4 = e3.length := Nat.mod_eq_of_lt (by simpa using hbound)
      rw [hmod]
      have hge : ¬ ((applyMask mask e3 ++ tl).length < e3.length) := by simp [hlm]
      simp only [hge, if_false, take_left' _ _ _ hlm, drop_left' _ _ _ hlm, hun]
      simp only [] at htrim
      rw [htrim]

theorem int_roundtrip (w : IntW) (signed : Bool) (v : Int)
    (h : fitsInt w signed v = true) (hr : i32Range v = true) :
    (if signed then toSigned w.bytes (wrapTo w.bytes v % 256 ^ w.bytes)
     else toSigned 4 (wrapTo w.bytes v % 256 ^ w.bytes)) = v := by
  cases w <;> cases signed <;>
    simp [fitsInt, i32Range, toSigned, wrapTo, IntW.bytes] at * <;> omega

theorem jump_roundtrip (v : Int) (hr : i32Range v = true) :
    toSigned 4 (wrapTo 4 v % 256 ^ 4) = v := by
  simp [i32Range, toSigned, wrapTo] at * ; omega

theorem arg0_roundtrip (v : Int) (h : fitsInt .w2 true v = true) :
    toSigned 2 (wrapTo 2 v) = v := by
  simp [fitsInt, toSigned, wrapTo] at * ; omega

theorem encodeStr_ok (st : EncState) (size : StrSize) (mask : ByteMask) (furibug : Bool) (s : Bytes)
    (hattr : Enc.strAttrsOk (.str size mask furibug) = true)
    (hok : strLayoutOk st size furibug s = true) :
    ∃ r, encodeStr st size mask furibug s = .ok r := by
  have hb := strBody_eq st size furibug s
  unfold encodeStr
  generalize strBody st size furibug s = sb at hb
  obtain ⟨e2, st1⟩ := sb
  simp only at hb
  have hfb : (fbOf st furibug).length = (if furibug = true then (st.getD []).length else 0) := by
    simp [fbOf]; split <;> simp
  have hp : ∃ e3, strPad size e2 = .ok e3 := by
    rcases size with ⟨len, nl⟩ | bs | bs
    · simp only [strLayoutOk, Bool.and_eq_true, decide_eq_true_eq] at hok
      have h2 := hok.2
      have : e2.length = s.length + (if nl = true then 0 else 1) + (fbOf st furibug).length := by
        rw [hb]; cases nl <;> simp [nulOf] <;> omega
      have hle : ¬ (e2.length > len) := by omega
      refine ⟨e2 ++ zeros (len - e2.length), ?_⟩
      simp only [strPad, hle, if_false]
    · have : bs ≠ 0 := by simpa [Enc.strAttrsOk] using hattr
      simp only [strPad, this, if_false]
      split <;> exact ⟨_, rfl⟩
    · have : bs ≠ 0 := by simpa [Enc.strAttrsOk] using hattr
      simp only [strPad, this, if_false]
      split <;> exact ⟨_, rfl⟩
  obtain ⟨e3, hp⟩ := hp
  simp only [hp]
  exact ⟨_, rfl⟩

theorem encodeOne_ok (st : EncState) (e : Enc) (a : Arg) (hattr : e.strAttrsOk = true)
    (hok : argOk st e a = true) :
    ∃ r, encodeOne st e a = .ok r := by
  cases e with
  | int w signed arg0 imm =>
    cases arg0 <;> cases a <;> simp [argOk] at hok
    exact ⟨(_, _), by simp [encodeOne, expectInt, hok.1.1]; exact ⟨rfl, rfl⟩⟩
  | jumpOffset => cases a <;> simp [argOk] at hok; exact ⟨(_, _), by simp [encodeOne, expectInt]; exact ⟨rfl, rfl⟩⟩
  | jumpTime => cases a <;> simp [argOk] at hok; exact ⟨(_, _), by simp [encodeOne, expectInt]; exact ⟨rfl, rfl⟩⟩
  | padding w => cases a <;> simp [argOk] at hok
  | float imm => cases a <;> simp [argOk] at hok; exact ⟨(_, _), by simp [encodeOne, expectFloat]; exact ⟨rfl, rfl⟩⟩
  | str size mask furibug =>
    cases a with
    | int v r => simp [argOk] at hok
    | float b r => simp [argOk] at hok
    | str s =>
      simp only [argOk] at hok
      obtain ⟨r, hr⟩ := encodeStr_ok st size mask furibug s hattr hok
      exact ⟨r, by simp [encodeOne, expectString, hr]⟩

/-- a register argument is only `ArgsOk` where the encoding can be a register -/
theorem argOk_reg (st : EncState) (e : Enc) (a : Arg) (hok : argOk st e a = true) (hr : a.isReg = true) :
    e.alwaysImmediate = false := by
  cases e with
  | int w s a0 imm => cases a0 <;> cases a <;> simp_all [argOk, Arg.isReg, Enc.alwaysImmediate]
  | jumpOffset => cases a <;> simp_all [argOk, Arg.isReg, Enc.alwaysImmediate]
  | jumpTime => cases a <;> simp_all [argOk, Arg.isReg, Enc.alwaysImmediate]
  | padding w => cases a <;> simp_all [argOk, Arg.isReg, Enc.alwaysImmediate]
  | float imm => cases a <;> simp_all [argOk, Arg.isReg, Enc.alwaysImmediate]
  | str sz m f => cases a <;> simp_all [argOk, Arg.isReg, Enc.alwaysImmediate]

theorem decodeOne_encodeOne (st : EncState) (e : Enc) (a : Arg) (bytes tl : Bytes) (st1 : EncState)
    (arg0 : Option Int)
    (hattr : e.strAttrsOk = true)
    (hok : argOk st e a = true)
    (he : encodeOne st e a = .ok (bytes, st1))
    (htl : ∀ bs m f, e = .str (.toBlobEnd bs) m f → tl = []) :
    decodeOne e (bytes ++ tl) a.isReg arg0 = .ok (a, [], tl, arg0) := by
  cases e with
  | int w signed a0 imm =>
    cases a0 <;> cases a <;> simp [argOk] at hok
    rename_i v reg
    simp only [encodeOne, expectInt, hok.1.1, Bool.not_true, Bool.and_false, Bool.false_eq_true, if_false,
      Outcome.ok.injEq, Prod.mk.injEq] at he
    obtain ⟨hb, _⟩ := he
    subst hb
    have hl : (leBytes w.bytes (wrapTo w.bytes v)).length = w.bytes := leBytes_length _ _
    have hge : ¬ ((leBytes w.bytes (wrapTo w.bytes v) ++ tl).length < w.bytes) := by simp [hl]
    simp only [decodeOne, hge, if_false, take_left' _ _ _ hl, drop_left' _ _ _ hl, leNat_leBytes, Arg.isReg]
    have := int_roundtrip w signed v hok.1.1 hok.1.2
    simp only [this]
  | jumpOffset =>
    cases a <;> simp [argOk] at hok
    rename_i v reg
    simp only [encodeOne, expectInt, Outcome.ok.injEq, Prod.mk.injEq] at he
    obtain ⟨hb, _⟩ := he
    subst hb
    have hl : (leBytes 4 (wrapTo 4 v)).length = 4 := leBytes_length _ _
    have hge : ¬ ((leBytes 4 (wrapTo 4 v) ++ tl).length < 4) := by simp [hl]
    simp only [decodeOne, hge, if_false, take_left' _ _ _ hl, drop_left' _ _ _ hl, leNat_leBytes, Arg.isReg,
      jump_roundtrip v hok.1, hok.2]
  | jumpTime =>
    cases a <;> simp [argOk] at hok
    rename_i v reg
    simp only [encodeOne, expectInt, Outcome.ok.injEq, Prod.mk.injEq] at he
    obtain ⟨hb, _⟩ := he
    subst hb
    have hl : (leBytes 4 (wrapTo 4 v)).length = 4 := leBytes_length _ _
    have hge : ¬ ((leBytes 4 (wrapTo 4 v) ++ tl).length < 4) := by simp [hl]
    simp only [decodeOne, hge, if_false, take_left' _ _ _ hl, drop_left' _ _ _ hl, leNat_leBytes, Arg.isReg,
      jump_roundtrip v hok.1, hok.2]
  | padding w => cases a <;> simp [argOk] at hok
  | float imm =>
    cases a <;> simp [argOk] at hok
    rename_i b reg
    simp only [encodeOne, expectFloat, Outcome.ok.injEq, Prod.mk.injEq] at he
    obtain ⟨hb, _⟩ := he
    subst hb
    have hl : (leBytes 4 b.toNat).length = 4 := leBytes_length _ _
    have hge : ¬ ((leBytes 4 b.toNat ++ tl).length < 4) := by simp [hl]
    simp only [decodeOne, hge, if_false, take_left' _ _ _ hl, drop_left' _ _ _ hl, leNat_leBytes, Arg.isReg]
    have : b.toNat % 256 ^ 4 = b.toNat := Nat.mod_eq_of_lt (by have := b.toNat_lt; simpa using this)
    simp [this]
  | str size mask furibug =>
    cases a with
    | int v r => simp [argOk] at hok
    | float b r => simp [argOk] at hok
    | str s =>
      simp only [argOk] at hok
      simp only [encodeOne, expectString] at he
      have := decodeStr_encodeStr st size mask furibug s tl bytes st1 hattr hok he
        (by intro bs hsz; exact htl bs mask furibug (by rw [hsz]))
      simp [decodeOne, this]


def Enc.isBlobEnd : Enc → Bool
  | .str (.toBlobEnd _) _ _ => true
  | _ => false

/-- a string that reads to the end of the blob is the last encoding -/
def blobEndLast : Abi → Bool
  | [] => true
  | e :: es => (!e.isBlobEnd || es.isEmpty) && blobEndLast es

theorem stateAfter_eq (st : EncState) (e : Enc) (a : Arg) (bytes : Bytes) (st1 : EncState)
    (h : encodeOne st e a = .ok (bytes, st1)) : stateAfter st e a = st1 := by
  simp [stateAfter, h]

theorem zeros_leNat (n : Nat) : leNat (zeros n) = 0 := by
  induction n with
  | zero => rfl
  | succ n ih => simp [zeros, List.replicate_succ, leNat] at *; omega

/-- The loop lemma: under `argsOkLoop`, with mask bits left for every remaining parameter, the
encoder succeeds without warnings, the mask fits in one bit per non-padding parameter, and the
decoder loop reads the blob back to exactly the arguments (padding values 0), consuming all bytes
and all mask bits. -/
theorem decLoop_encLoop (es : Abi) : ∀ (k : Nat) (args : List Arg) (st : EncState),
    k + (es.filter Enc.contributes).length ≤ 16 →
    (∀ e ∈ es, e.isArg0 = false) → (∀ e ∈ es, e.strAttrsOk = true) →
    blobEndLast es = true → argsOkLoop st es args = true →
    ∃ o, encLoop k es args st = .ok o ∧ o.warnings = [] ∧
      o.mask < 2 ^ (es.filter Enc.contributes).length ∧
      ((∀ a ∈ args, a.isReg = false) → o.mask = 0) ∧
      ∀ arg0, ∃ full, decLoop es o.blob o.mask arg0 = .ok ⟨full, [], [], 0, arg0⟩ ∧
        dropPadding es full = args ∧ nonzeroPadding es full = false := by
  induction es with
  | nil =>
    intro k args st _ _ _ _ hok
    simp only [argsOkLoop, List.isEmpty_iff] at hok
    subst hok
    exact ⟨⟨[], 0, [], st⟩, rfl, rfl, by simp, fun _ => rfl, fun arg0 => ⟨[], rfl, rfl, rfl⟩⟩
  | cons e es ih =>
    intro k args st hk hna0 hattr hbe hok
    have hna0' : ∀ e' ∈ es, e'.isArg0 = false := fun e' he' => hna0 e' (List.mem_cons_of_mem _ he')
    have hattr' : ∀ e' ∈ es, e'.strAttrsOk = true := fun e' he' => hattr e' (List.mem_cons_of_mem _ he')
    simp only [blobEndLast, Bool.and_eq_true] at hbe
    by_cases hp : e.isPadding = true
    · -- padding: zeros, no argument consumed
      have hc : Enc.contributes e = false := by simp [Enc.contributes, hp]
      simp only [argsOkLoop, hp, if_true] at hok
      have hk' : k + (es.filter Enc.contributes).length ≤ 16 := by
        simpa [List.filter_cons, hc] using hk
      obtain ⟨o, ho, hw, hm, hz, hd⟩ := ih k args st hk' hna0' hattr' hbe.2 hok
      refine ⟨{ o with blob := zeros e.padWidth ++ o.blob }, ?_, hw, ?_, hz, ?_⟩
      · simp only [encLoop, hp, if_true, ho]
      · simpa [List.filter_cons, hc] using hm
      · intro arg0
        obtain ⟨full, hdec, hdp, hnz⟩ := hd arg0
        refine ⟨.int 0 false :: full, ?_, ?_, ?_⟩
        · have hl : (zeros e.padWidth).length = e.padWidth := zeros_length _
          have hge : ¬ ((zeros e.padWidth ++ o.blob).length < e.padWidth) := by simp [hl]
          simp only [decLoop, hp, if_true, hge, if_false, take_left' _ _ _ hl, drop_left' _ _ _ hl, hdec,
            zeros_leNat]
          simp [toSigned]
        · simp only [dropPadding, hp, if_true, hdp]
        · simp only [nonzeroPadding, hp, hnz]; simp
    · -- a real parameter
      have hp' : e.isPadding = false := by simpa using hp
      have hc : Enc.contributes e = true := by simp [Enc.contributes, hp']
      have hk1 : k < 16 ∧ (k + 1) + (es.filter Enc.contributes).length ≤ 16 := by
        simp only [List.filter_cons, hc, if_true, List.length_cons] at hk
        omega
      cases args with
      | nil => simp [argsOkLoop, hp'] at hok
      | cons a as =>
        simp only [argsOkLoop, hp', Bool.false_eq_true, if_false, Bool.and_eq_true] at hok
        obtain ⟨hoka, hokr⟩ := hok
        obtain ⟨⟨bytes, st1⟩, he⟩ := encodeOne_ok st e a (hattr e (List.mem_cons_self ..)) hoka
        rw [stateAfter_eq st e a bytes st1 he] at hokr
        obtain ⟨o, ho, hw, hm, hz, hd⟩ := ih (k + 1) as st1 hk1.2 hna0' hattr' hbe.2 hokr
        have hfull : (a.isReg && decide (16 ≤ k)) = false := by
          have : ¬ (16 ≤ k) := by omega
          simp [this]
        have hwarn : (e.alwaysImmediate && a.isReg) = false := by
          cases hr : a.isReg with
          | false => simp
          | true => simp [argOk_reg st e a hoka hr]
        have hbit : (if (a.isReg && !e.alwaysImmediate) = true then 1 else 0) = (if a.isReg = true then 1 else 0) := by
          cases hr : a.isReg with
          | false => simp
          | true => simp [argOk_reg st e a hoka hr]
        refine ⟨⟨bytes ++ o.blob, (if a.isReg = true then 1 else 0) + 2 * o.mask, [], o.st⟩, ?_, rfl, ?_, ?_, ?_⟩
        · simp only [encLoop, hp', Bool.false_eq_true, if_false, hfull, he, ho, hwarn, hbit, hw, List.append_nil]
        · simp only [List.filter_cons, hc, if_true, List.length_cons, Nat.pow_succ]
          split <;> omega
        · intro hall
          have h1 : a.isReg = false := hall a (List.mem_cons_self ..)
          have h2 := hz (fun x hx => hall x (List.mem_cons_of_mem _ hx))
          simp [h1, h2]
        · intro arg0
          obtain ⟨full, hdec, hdp, hnz⟩ := hd arg0
          refine ⟨a :: full, ?_, ?_, ?_⟩
          · have htl : ∀ bs m f, e = .str (.toBlobEnd bs) m f → o.blob = [] := by
              intro bs m f heq
              have hbe1 := hbe.1
              subst heq
              simp only [Enc.isBlobEnd, Bool.not_true, Bool.false_or, List.isEmpty_iff] at hbe1
              subst hbe1
              simp only [encLoop, Outcome.ok.injEq] at ho
              rw [← ho]
            have hreg : (!e.alwaysImmediate && ((if a.isReg = true then 1 else 0) + 2 * o.mask) % 2 == 1) = a.isReg := by
              cases hr : a.isReg with
              | false => simp
              | true => simp [argOk_reg st e a hoka hr]
            have hdiv : ((if a.isReg = true then 1 else 0) + 2 * o.mask) / 2 = o.mask := by
              split <;> omega
            have h1 := decodeOne_encodeOne st e a bytes o.blob st1 arg0 (hattr e (List.mem_cons_self ..)) hoka he htl
            simp only [decLoop, hp', Bool.false_eq_true, if_false, hreg, h1, hdiv, hdec, List.nil_append]
          · simp only [dropPadding, hp', Bool.false_eq_true, if_false, hdp]
          · simp only [nonzeroPadding, hp', Bool.false_and, Bool.false_or, hnz]

theorem blobEndLast_of_dropLast (abi : Abi) (h : abi.dropLast.any Enc.isBlobEnd = false) :
    blobEndLast abi = true := by
  induction abi with
  | nil => rfl
  | cons e es ih =>
    cases es with
    | nil => simp [blobEndLast]
    | cons e2 es2 =>
      simp only [List.dropLast_cons_cons, List.any_cons, Bool.or_eq_false_iff] at h
      simp only [blobEndLast, h.1, Bool.not_false, Bool.true_or, Bool.true_and]
      exact ih h.2

theorem validAbi_blobEndLast (abi : Abi) (h : validAbi abi = true) : blobEndLast abi = true := by
  apply blobEndLast_of_dropLast
  simp only [validAbi, Bool.and_eq_true, Bool.not_eq_true'] at h
  have h5 := h.1.1.2
  rw [List.drop_one, List.tail_reverse, List.any_reverse] at h5
  rw [← h5]
  congr 1

theorem validAbi_arg0_tail (abi : Abi) (h : validAbi abi = true) :
    ∀ e ∈ abi.drop 1, e.isArg0 = false := by
  simp only [validAbi, Bool.and_eq_true, Bool.not_eq_true'] at h
  have h4 := h.1.1.1.2
  intro e he
  cases hx : e.isArg0 with
  | false => rfl
  | true =>
    have : (abi.drop 1).any Enc.isArg0 = true := List.any_eq_true.mpr ⟨e, he, hx⟩
    rw [this] at h4; cases h4

theorem validAbi_strAttrs (abi : Abi) (h : validAbi abi = true) : ∀ e ∈ abi, e.strAttrsOk = true := by
  simp only [validAbi, Bool.and_eq_true] at h
  exact List.all_eq_true.mp h.2

/-- what `decompileCall` does with the result of the decoder loop -/
theorem decompileCall_of_decLoop (abi : Abi) (raw : Raw) (full args : List Arg) (a0 : Option Int)
    (hd : decLoop abi raw.blob raw.mask raw.arg0 = .ok ⟨full, [], [], 0, a0⟩)
    (hdp : dropPadding abi full = args) (hnz : nonzeroPadding abi full = false) :
    decompileCall abi raw = .ok (args, []) := by
  simp [decompileCall, decodeArgs, hd, hdp, hnz]

/-! ## the converse direction (fixed-width encodings) -/

def Enc.isStr : Enc → Bool
  | .str .. => true
  | _ => false

/-- no string parameter -/
def strFree (abi : Abi) : Bool := abi.all fun e => !Enc.isStr e
/-- no `arg0` parameter -/
def noArg0 (abi : Abi) : Bool := abi.all fun e => !e.isArg0

/-- register bits only on parameters that can be registers, none beyond the last parameter
(a bit elsewhere is dropped by the decoder: silently on an immediate-only parameter, with the
"unused mask bits" warning beyond the end) -/
def maskOk : Abi → Nat → Bool
  | [], m => m == 0
  | e :: es, m =>
    if e.isPadding then maskOk es m
    else (!e.alwaysImmediate || m % 2 == 0) && maskOk es (m / 2)

theorem leNat_eq_zero (bs : Bytes) (h : leNat bs = 0) : bs = zeros bs.length := by
  induction bs with
  | nil => rfl
  | cons b bs ih =>
    simp only [leNat] at h
    have hb : b.toNat = 0 := by omega
    have hr : leNat bs = 0 := by omega
    have : b = 0 := by
      apply UInt8.toNat_inj.mp; simpa using hb
    subst this
    simp only [List.length_cons, zeros, List.replicate_succ]
    rw [← zeros, ← ih hr]

theorem wrap_of_read (w : IntW) (signed : Bool) (x : Nat) (hx : x < 256 ^ w.bytes) :
    wrapTo w.bytes (if signed then toSigned w.bytes x else toSigned 4 x) = x := by
  cases w <;> cases signed <;> simp [toSigned, wrapTo, IntW.bytes] at * <;> (try split) <;> omega

theorem wrap4_of_read (x : Nat) (hx : x < 256 ^ 4) : wrapTo 4 (toSigned 4 x) = x := by
  simp [toSigned, wrapTo] at *; split <;> omega

theorem take_drop_bytes (rest : Bytes) (n : Nat) (h : ¬ rest.length < n) :
    leBytes n (leNat (rest.take n)) = rest.take n ∧ rest = rest.take n ++ rest.drop n := by
  have hl : (rest.take n).length = n := by simp; omega
  constructor
  · have := leBytes_leNat (rest.take n); rwa [hl] at this
  · simp

theorem fits_of_read (w : IntW) (signed : Bool) (x : Nat) (hx : x < 256 ^ w.bytes) :
    (w != .w4 && !fitsInt w signed (if signed then toSigned w.bytes x else toSigned 4 x)) = false := by
  cases w <;> cases signed <;> simp [fitsInt, toSigned, IntW.bytes] at * <;> (try split) <;> omega

/-- converse of `decodeOne_encodeOne` for the fixed-width encodings: what was read is what
re-encoding the decoded value writes -/
theorem encodeOne_decodeOne (st : EncState) (e : Enc) (rest : Bytes) (r : Bool) (a0 : Option Int)
    (a : Arg) (w : List String) (rest1 : Bytes) (a01 : Option Int)
    (hs : e.isStr = false) (h0 : e.isArg0 = false) (hp : e.isPadding = false)
    (hd : decodeOne e rest r a0 = .ok (a, w, rest1, a01)) :
    w = [] ∧ a01 = a0 ∧ a.isReg = r ∧ ∃ bytes, rest = bytes ++ rest1 ∧ encodeOne st e a = .ok (bytes, st) := by
  cases e with
  | int iw signed z imm =>
    cases z with
    | true => simp [Enc.isArg0] at h0
    | false =>
      simp only [decodeOne] at hd
      split at hd
      · cases hd
      · rename_i hlen
        simp only [Outcome.ok.injEq, Prod.mk.injEq] at hd
        obtain ⟨ha, hw, hr1, ha0⟩ := hd
        subst ha hw hr1 ha0
        obtain ⟨h1, h2⟩ := take_drop_bytes rest iw.bytes hlen
        have hl : (rest.take iw.bytes).length = iw.bytes := by simp; omega
        have hx : leNat (rest.take iw.bytes) < 256 ^ iw.bytes := by
          have := leNat_lt (rest.take iw.bytes); rwa [hl] at this
        refine ⟨rfl, rfl, rfl, rest.take iw.bytes, h2, ?_⟩
        simp only [encodeOne, expectInt, fits_of_read iw signed _ hx, Bool.false_eq_true, if_false,
          wrap_of_read iw signed _ hx, h1]
  | jumpOffset =>
    simp only [decodeOne] at hd
    split at hd
    · cases hd
    · rename_i hlen
      simp only [Outcome.ok.injEq, Prod.mk.injEq] at hd
      obtain ⟨ha, hw, hr1, ha0⟩ := hd
      subst ha hw hr1 ha0
      obtain ⟨h1, h2⟩ := take_drop_bytes rest 4 hlen
      have hl : (rest.take 4).length = 4 := by simp; omega
      have hx : leNat (rest.take 4) < 256 ^ 4 := by have := leNat_lt (rest.take 4); rwa [hl] at this
      exact ⟨rfl, rfl, rfl, rest.take 4, h2, by simp only [encodeOne, expectInt, wrap4_of_read _ hx, h1]⟩
  | jumpTime =>
    simp only [decodeOne] at hd
    split at hd
    · cases hd
    · rename_i hlen
      simp only [Outcome.ok.injEq, Prod.mk.injEq] at hd
      obtain ⟨ha, hw, hr1, ha0⟩ := hd
      subst ha hw hr1 ha0
      obtain ⟨h1, h2⟩ := take_drop_bytes rest 4 hlen
      have hl : (rest.take 4).length = 4 := by simp; omega
      have hx : leNat (rest.take 4) < 256 ^ 4 := by have := leNat_lt (rest.take 4); rwa [hl] at this
      exact ⟨rfl, rfl, rfl, rest.take 4, h2, by simp only [encodeOne, expectInt, wrap4_of_read _ hx, h1]⟩
  | padding wd => simp [Enc.isPadding] at hp
  | float imm =>
    simp only [decodeOne] at hd
    split at hd
    · cases hd
    · rename_i hlen
      simp only [Outcome.ok.injEq, Prod.mk.injEq] at hd
      obtain ⟨ha, hw, hr1, ha0⟩ := hd
      subst ha hw hr1 ha0
      obtain ⟨h1, h2⟩ := take_drop_bytes rest 4 hlen
      have hl : (rest.take 4).length = 4 := by simp; omega
      have hx : leNat (rest.take 4) < 256 ^ 4 := by have := leNat_lt (rest.take 4); rwa [hl] at this
      refine ⟨rfl, rfl, rfl, rest.take 4, h2, ?_⟩
      have : (UInt32.ofNat (leNat (rest.take 4))).toNat = leNat (rest.take 4) := by
        simp [UInt32.toNat_ofNat']; omega
      simp only [encodeOne, expectFloat, this, h1]
  | str sz m f => simp [Enc.isStr] at hs


/-- converse loop lemma -/
theorem encLoop_decLoop (es : Abi) : ∀ (k : Nat) (rest : Bytes) (mask : Nat) (a0 : Option Int) (o : DecOut) (st : EncState),
    k + (es.filter Enc.contributes).length ≤ 16 →
    strFree es = true → noArg0 es = true → decLoop es rest mask a0 = .ok o →
    nonzeroPadding es o.args = false → maskOk es mask = true →
    o.warnings = [] ∧ o.mask = 0 ∧ o.arg0 = a0 ∧
    ∃ blob, rest = blob ++ o.rest ∧ encLoop k es (dropPadding es o.args) st = .ok ⟨blob, mask, [], st⟩ := by
  induction es with
  | nil =>
    intro k rest mask a0 o st _ _ _ hd _ hm
    simp only [decLoop, Outcome.ok.injEq] at hd
    subst hd
    simp only [maskOk, beq_iff_eq] at hm
    subst hm
    exact ⟨rfl, rfl, rfl, [], rfl, rfl⟩
  | cons e es ih =>
    intro k rest mask a0 o st hk hsf hna hd hnz hm
    simp only [strFree, noArg0, List.all_cons, Bool.and_eq_true, Bool.not_eq_true'] at hsf hna
    have hsf' : strFree es = true := hsf.2
    have hna' : noArg0 es = true := hna.2
    by_cases hp : e.isPadding = true
    · simp only [decLoop, hp, if_true] at hd
      split at hd
      · cases hd
      · rename_i hlen
        cases h2 : decLoop es (rest.drop e.padWidth) mask a0 with
        | ok o2 =>
          rw [h2] at hd; simp only [Outcome.ok.injEq] at hd; subst hd
          simp only [nonzeroPadding, hp, Bool.true_and, Bool.or_eq_false_iff, bne_eq_false_iff_eq] at hnz
          simp only [maskOk, hp, if_true] at hm
          have hc : Enc.contributes e = false := by simp [Enc.contributes, hp]
          have hk' : k + (es.filter Enc.contributes).length ≤ 16 := by simpa [List.filter_cons, hc] using hk
          obtain ⟨hw, hm0, ha0, blob, hrest, henc⟩ := ih k _ _ _ o2 st hk' hsf' hna' h2 hnz.2 hm
          have hzero : toSigned 4 (leNat (rest.take e.padWidth)) = 0 := by
            have := hnz.1; simpa using this
          have hl : (rest.take e.padWidth).length = e.padWidth := by simp; omega
          have hx : leNat (rest.take e.padWidth) < 256 ^ 4 := by
            have h1 := leNat_lt (rest.take e.padWidth)
            have : e.padWidth ≤ 4 := by
              cases e <;> simp [Enc.isPadding] at hp
              simp [Enc.padWidth, padBytes]; split <;> omega
            have : 256 ^ (rest.take e.padWidth).length ≤ 256 ^ 4 := Nat.pow_le_pow_right (by omega) (by omega)
            omega
          have hx0 : leNat (rest.take e.padWidth) = 0 := by
            simp [toSigned] at hzero hx; split at hzero <;> omega
          have hz := leNat_eq_zero _ hx0
          rw [hl] at hz
          refine ⟨hw, hm0, ha0, zeros e.padWidth ++ blob, ?_, ?_⟩
          · have : rest = rest.take e.padWidth ++ rest.drop e.padWidth := by simp
            rw [this, hz, hrest]; simp
          · simp only [dropPadding, hp, if_true, encLoop, henc]
        | err c => rw [h2] at hd; cases hd
        | panic p => rw [h2] at hd; cases hd
    · have hp' : e.isPadding = false := by simpa using hp
      simp only [decLoop, hp', Bool.false_eq_true, if_false] at hd
      cases h1 : decodeOne e rest (!e.alwaysImmediate && mask % 2 == 1) a0 with
      | ok r =>
        obtain ⟨a, w, rest1, a01⟩ := r
        rw [h1] at hd; simp only at hd
        cases h2 : decLoop es rest1 (mask / 2) a01 with
        | ok o2 =>
          rw [h2] at hd; simp only [Outcome.ok.injEq] at hd; subst hd
          simp only [nonzeroPadding, hp', Bool.false_and, Bool.false_or] at hnz
          simp only [maskOk, hp', Bool.false_eq_true, if_false, Bool.and_eq_true] at hm
          obtain ⟨hw1, ha01, hreg, bytes, hrest, henc1⟩ := encodeOne_decodeOne st e rest _ a0 a w rest1 a01 hsf.1 hna.1 hp' h1
          subst hw1 ha01
          have hc : Enc.contributes e = true := by simp [Enc.contributes, hp']
          have hk1 : k < 16 ∧ (k + 1) + (es.filter Enc.contributes).length ≤ 16 := by
            simp only [List.filter_cons, hc, if_true, List.length_cons] at hk; omega
          have hfull : ∀ b : Bool, (b && decide (16 ≤ k)) = false := by
            intro b; have : ¬ (16 ≤ k) := by omega
            simp [this]
          obtain ⟨hw, hm0, ha0, blob, hrest2, henc⟩ := ih (k + 1) _ _ _ o2 st hk1.2 hsf' hna' h2 hnz hm.2
          refine ⟨by simpa using hw, hm0, ha0, bytes ++ blob, ?_, ?_⟩
          · rw [hrest, hrest2]; simp
          · simp only [dropPadding, hp', Bool.false_eq_true, if_false, encLoop, hfull, henc1, henc, hreg]
            have hbit : (if ((!e.alwaysImmediate && mask % 2 == 1) && !e.alwaysImmediate) = true then 1 else 0) + 2 * (mask / 2) = mask := by
              have hm1 := hm.1
              rcases Nat.mod_two_eq_zero_or_one mask with hmod | hmod <;> cases hai : e.alwaysImmediate <;>
                simp [hmod, hai] at hm1 ⊢ <;> omega
            have hwarn : (e.alwaysImmediate && (!e.alwaysImmediate && mask % 2 == 1)) = false := by
              cases e.alwaysImmediate <;> simp
            simp [hwarn]
            simpa using hbit
        | err c => rw [h2] at hd; cases hd
        | panic p => rw [h2] at hd; cases hd
      | err c => rw [h1] at hd; cases hd
      | panic p => rw [h1] at hd; cases hd


end TruthModel.Abi
