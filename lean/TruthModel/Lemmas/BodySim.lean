import TruthModel.Lemmas.BodyVM
/-
Whole flat bodies: the forward simulation between the source machine `runJS` and the timed target machine
`execT` on `lowerBodyJ body` (both in `Model/BodySem.lean`), GENERIC in what is known about the single
statements:

* `frag_at`      where the fragment of the `k`-th statement sits in the lowered stream, with which counters and time
                 it was lowered, and which labels are defined before it;
* `label_corr`   the first definition of a user label in the source is its first definition in the lowered stream,
                 at the position of the label statement's fragment, with the same time;
* `body_sim`     if every statement's fragment simulates its statement (`StmtSim`, stated with the structural
                 execution `execFrag`; proved in `Props/C02.lean` for the integer fragment from the per-statement
                 theorems), then every terminating run of the source machine is matched by a run of the target
                 machine that ends in a related state (`SimRel`).
-/
namespace TruthModel.Lower
open TruthModel TruthModel.Regs

/-! ## bodies -/

/-- where a statement jumps to, if it can jump -/
def jumpOfS : JSStmt → Option Goto
  | .goto g => some g
  | .condGoto _ _ g => some g
  | _ => none

theorem stmtTarget_of_jumpOfS {st : JSStmt} {g : Goto} (h : jumpOfS st = some g) : stmtTarget st = g := by
  cases st <;> simp_all [jumpOfS, stmtTarget]

theorem jumpOfS_of_target_time {st : JSStmt} {x : Int} (h : (stmtTarget st).time = some x) :
    jumpOfS st = some (stmtTarget st) ∧ ownLabel st = [] := by
  cases st <;> simp_all [jumpOfS, stmtTarget, noTgt, ownLabel]

/-- the labels the source defines -/
def userLabels : List JSStmt → List Nat
  | [] => []
  | s :: rest => ownLabel s ++ userLabels rest

theorem userLabels_append : ∀ (a b : List JSStmt), userLabels (a ++ b) = userLabels a ++ userLabels b
  | [], _ => rfl
  | s :: a, b => by simp [userLabels, userLabels_append a b]

/-- what the simulation needs of the body: labels defined once and below the label counter of the compiler, jumps to
such labels, time labels that do not go backwards, explicit jump times not after the time of the label -/
structure BodyWF (lg0 : Nat) (t0 : Int) (body : List JSStmt) : Prop where
  nodup : (userLabels body).Nodup
  labelsLt : ∀ l ∈ userLabels body, l < lg0
  targetsLt : ∀ st ∈ body, ∀ g, jumpOfS st = some g → g.l < lg0
  waits : ∀ n, JSStmt.wait n ∈ body → 0 ≤ n
  jumpTimes : ∀ st ∈ body, ∀ g x, jumpOfS st = some g → g.time = some x →
    ∀ i tl, findLabelS (stampBody t0 body) g.l 0 = some (i, tl) → x ≤ tl

/-- position of the fragment of statement `k` in the lowered stream (`P.length` from the end of the body on) -/
def fragPos (I : JIntrinsics) (db ab mask : Nat) : Gen → Nat → Int → List JSStmt → Nat → Nat
  | _, _, _, _, 0 => 0
  | _, _, _, [], _ + 1 => 0
  | g, lg, t, s :: rest, k + 1 => match lowerStmtJ I db ab g lg (stmtTime t s) mask s with
    | .ok (c, g', lg') => c.length + fragPos I db ab mask g' lg' (stmtTime t s) rest k
    | _ => 0

/-- the time of statement `k`; from the end of the body on, the time at the end -/
def timeAt (t : Int) (body : List JSStmt) (k : Nat) : Int :=
  match (stampBody t body)[k]? with
  | some (tk, _) => tk
  | none => endTime t body

theorem lowerBodyJ_cons_inv {I : JIntrinsics} {db ab mask g lg : Nat} {t : Int} {s : JSStmt} {rest : List JSStmt}
    {P : List (Int × JStmt)} (h : lowerBodyJ I db ab mask g lg t (s :: rest) = .ok P) :
    ∃ c g' lg' P', lowerStmtJ I db ab g lg (stmtTime t s) mask s = .ok (c, g', lg') ∧
      lowerBodyJ I db ab mask g' lg' (stmtTime t s) rest = .ok P' ∧ P = c.map (fun x => (stmtTime t s, x)) ++ P' := by
  cases s <;>
  · simp only [lowerBodyJ] at h
    simp only [stmtTime]
    split at h
    · rename_i c g' lg' h1
      split at h
      · rename_i P' h2
        simp only [Outcome.ok.injEq] at h
        exact ⟨c, g', lg', P', h1, h2, h.symm⟩
      · cases h
      · cases h
    · cases h
    · cases h

theorem stampBody_length : ∀ (t : Int) (body : List JSStmt), (stampBody t body).length = body.length
  | _, [] => rfl
  | t, s :: rest => by simp [stampBody, stampBody_length _ rest]

theorem stampBody_get : ∀ (t : Int) (body : List JSStmt) (k : Nat) (tk : Int) (st : JSStmt),
    (stampBody t body)[k]? = some (tk, st) → body[k]? = some st
  | _, [], _, _, _, h => by simp [stampBody] at h
  | t, s :: rest, 0, tk, st, h => by
    simp only [stampBody, List.getElem?_cons_zero, Option.some.injEq, Prod.mk.injEq] at h
    simp [h.2]
  | t, s :: rest, k + 1, tk, st, h => by
    simp only [stampBody, List.getElem?_cons_succ] at h
    simpa using stampBody_get _ rest k tk st h

/-- **frag_at**: the fragment of the `k`-th statement inside the lowered stream -/
theorem frag_at {I : JIntrinsics} {db ab mask : Nat} : ∀ (body : List JSStmt) (g lg : Nat) (t : Int) (P : List (Int × JStmt))
    (k : Nat) (st : JSStmt), lowerBodyJ I db ab mask g lg t body = .ok P → body[k]? = some st →
    ∃ pre code post gk lgk gk' lgk' tk,
      P = pre ++ (code.map (fun x => (tk, x)) ++ post) ∧ (stampBody t body)[k]? = some (tk, st) ∧
      lowerStmtJ I db ab gk lgk tk mask st = .ok (code, gk', lgk') ∧ g ≤ gk ∧ lg ≤ lgk ∧
      pre.length = fragPos I db ab mask g lg t body k ∧
      fragPos I db ab mask g lg t body (k + 1) = pre.length + code.length ∧
      (∀ l ∈ labelsOf (pre.map (·.2)), l ∈ userLabels (body.take k) ∨ (lg ≤ l ∧ l < lgk))
  | [], _, _, _, _, _, _, _, hk => by simp at hk
  | s :: rest, g, lg, t, P, 0, st, h, hk => by
    obtain ⟨c, g', lg', P', h1, h2, rfl⟩ := lowerBodyJ_cons_inv h
    simp only [List.getElem?_cons_zero, Option.some.injEq] at hk
    subst hk
    refine ⟨[], c, P', g, lg, g', lg', stmtTime t s, by simp, by simp [stampBody], h1, Nat.le_refl _, Nat.le_refl _, by simp [fragPos],
      by simp [fragPos, h1], by simp [labelsOf]⟩
  | s :: rest, g, lg, t, P, k + 1, st, h, hk => by
    obtain ⟨c, g', lg', P', h1, h2, rfl⟩ := lowerBodyJ_cons_inv h
    simp only [List.getElem?_cons_succ] at hk
    obtain ⟨pre, code, post, gk, lgk, gk', lgk', tk, hP, hst, hl, hg, hlg, hpos, hpos', hlab⟩ :=
      frag_at rest g' lg' (stmtTime t s) P' k st h2 hk
    obtain ⟨hg1, hl1, hsh⟩ := shape_lowerStmtJ h1
    refine ⟨c.map (fun x => (stmtTime t s, x)) ++ pre, code, post, gk, lgk, gk', lgk', tk, ?_, ?_, hl, Nat.le_trans hg1 hg,
      Nat.le_trans hl1 hlg, ?_, ?_, ?_⟩
    · rw [hP, List.append_assoc]
    · simpa [stampBody] using hst
    · simp [fragPos, h1, hpos]
    · simp only [fragPos, h1, hpos', List.length_append, List.length_map]; omega
    · intro l hl'
      have hmap : (c.map (fun x => (stmtTime t s, x)) ++ pre).map (·.2) = c ++ pre.map (·.2) := by
        simp [List.map_append, List.map_map, Function.comp_def]
      rw [hmap, labelsOf_append, List.mem_append] at hl'
      rcases hl' with hl' | hl'
      · rcases hsh.range l hl' with ho | hr
        · exact Or.inl (by simp [userLabels, ho])
        · exact Or.inr ⟨hr.1, by omega⟩
      · rcases hlab l hl' with hu | hr
        · exact Or.inl (by simp [userLabels, hu])
        · exact Or.inr ⟨by omega, hr.2⟩

/-- from the end of the body on, the position is the end of the stream -/
theorem fragPos_end {I : JIntrinsics} {db ab mask : Nat} : ∀ (body : List JSStmt) (g lg : Nat) (t : Int) (P : List (Int × JStmt))
    (k : Nat), lowerBodyJ I db ab mask g lg t body = .ok P → body.length ≤ k → fragPos I db ab mask g lg t body k = P.length
  | [], _, _, _, P, k, h, _ => by
    simp only [lowerBodyJ, Outcome.ok.injEq] at h
    subst h
    cases k <;> rfl
  | s :: rest, g, lg, t, P, 0, _, hk => by simp at hk
  | s :: rest, g, lg, t, P, k + 1, h, hk => by
    obtain ⟨c, g', lg', P', h1, h2, rfl⟩ := lowerBodyJ_cons_inv h
    have := fragPos_end rest g' lg' (stmtTime t s) P' k h2 (by simpa using hk)
    simp [fragPos, h1, this]

/-! ### labels -/

theorem findLabelS_shift : ∀ (B : List (Int × JSStmt)) (l k : Nat),
    findLabelS B l k = (findLabelS B l 0).map (fun r => (r.1 + k, r.2))
  | [], _, _ => rfl
  | (t, st) :: B, l, k => by
    have h1 := findLabelS_shift B l (k + 1)
    have h2 := findLabelS_shift B l 1
    cases st with
    | label l' =>
      simp only [findLabelS]
      split
      · simp
      · rw [h1, h2]; cases findLabelS B l 0 <;> simp [Nat.add_comm, Nat.add_left_comm]
    | _ =>
      simp only [findLabelS]
      rw [h1, h2]; cases findLabelS B l 0 <;> simp [Nat.add_comm, Nat.add_left_comm]

theorem findLabelS_get : ∀ (B : List (Int × JSStmt)) (l i : Nat) (tl : Int), findLabelS B l 0 = some (i, tl) →
    B[i]? = some (tl, .label l)
  | [], _, _, _, h => by simp [findLabelS] at h
  | (t, st) :: B, l, i, tl, h => by
    have hsh := findLabelS_shift B l 1
    have step : findLabelS B l 1 = some (i, tl) → ((t, st) :: B)[i]? = some (tl, .label l) := by
      intro h
      rw [hsh] at h
      cases hr : findLabelS B l 0 with
      | none => simp [hr] at h
      | some r =>
        obtain ⟨i', tl'⟩ := r
        simp only [hr, Option.map_some, Option.some.injEq, Prod.mk.injEq] at h
        obtain ⟨rfl, rfl⟩ := h
        simpa using findLabelS_get B l i' tl' hr
    cases st with
    | label l' =>
      simp only [findLabelS] at h
      split at h
      · rename_i e
        simp only [Option.some.injEq, Prod.mk.injEq] at h
        obtain ⟨rfl, rfl⟩ := h
        simp [e]
      · exact step h
    | _ => simp only [findLabelS] at h; exact step h

/-- **label_corr**: a user label is found in the lowered stream where its label statement was lowered to -/
theorem label_corr {I : JIntrinsics} {db ab mask : Nat} : ∀ (body : List JSStmt) (g lg : Nat) (t : Int) (P : List (Int × JStmt))
    (l i : Nat) (tl : Int), lowerBodyJ I db ab mask g lg t body = .ok P → l < lg →
    findLabelS (stampBody t body) l 0 = some (i, tl) →
    findLabelJ (P.map (·.2)) l 0 = some (fragPos I db ab mask g lg t body i, tl)
  | [], _, _, _, _, _, _, _, _, _, hf => by simp [stampBody, findLabelS] at hf
  | s :: rest, g, lg, t, P, l, i, tl, h, hl, hf => by
    obtain ⟨c, g', lg', P', h1, h2, rfl⟩ := lowerBodyJ_cons_inv h
    obtain ⟨hg1, hl1, hsh⟩ := shape_lowerStmtJ h1
    have hmap : (c.map (fun x => (stmtTime t s, x)) ++ P').map (·.2) = c ++ P'.map (·.2) := by
      simp [List.map_append, List.map_map, Function.comp_def]
    rw [hmap]
    have step : findLabelS (stampBody (stmtTime t s) rest) l 1 = some (i, tl) → l ∉ ownLabel s →
        findLabelJ (c ++ P'.map (·.2)) l 0 = some (fragPos I db ab mask g lg t (s :: rest) i, tl) := by
      intro hf hown
      rw [findLabelS_shift] at hf
      cases hr : findLabelS (stampBody (stmtTime t s) rest) l 0 with
      | none => simp [hr] at hf
      | some r =>
        obtain ⟨i', tl'⟩ := r
        simp only [hr, Option.map_some, Option.some.injEq, Prod.mk.injEq] at hf
        obtain ⟨rfl, rfl⟩ := hf
        have ih := label_corr rest g' lg' (stmtTime t s) P' l i' tl' h2 (by omega) hr
        have hnot : l ∉ labelsOf c := by
          intro hm
          rcases hsh.range l hm with ho | hr'
          · exact hown ho
          · omega
        rw [findLabelJ_append c _ l hnot, ih]
        simp [fragPos, h1, Nat.add_comm]
    cases s with
    | label l' =>
      simp only [stampBody, findLabelS] at hf
      split at hf
      · rename_i e
        simp only [Option.some.injEq, Prod.mk.injEq] at hf
        obtain ⟨rfl, rfl⟩ := hf
        simp only [lowerStmtJ, Outcome.ok.injEq, Prod.mk.injEq] at h1
        obtain ⟨rfl, _, _⟩ := h1
        simp [findLabelJ, e, fragPos, stmtTime]
      · rename_i e
        exact step hf (by simpa [ownLabel] using fun h => e h.symm)
    | base b => simp only [stampBody, findLabelS] at hf; exact step hf (by simp [ownLabel])
    | goto b => simp only [stampBody, findLabelS] at hf; exact step hf (by simp [ownLabel])
    | condGoto a b d => simp only [stampBody, findLabelS] at hf; exact step hf (by simp [ownLabel])
    | wait n => simp only [stampBody, findLabelS] at hf; exact step hf (by simp [ownLabel])

/-! ### times -/

theorem timeAt_cons_zero (t : Int) (s : JSStmt) (rest : List JSStmt) : timeAt t (s :: rest) 0 = stmtTime t s := rfl

theorem timeAt_cons_succ (t : Int) (s : JSStmt) (rest : List JSStmt) (k : Nat) :
    timeAt t (s :: rest) (k + 1) = timeAt (stmtTime t s) rest k := by
  simp [timeAt, stampBody, endTime]

theorem le_timeAt : ∀ (body : List JSStmt) (t : Int) (k : Nat), (∀ n, JSStmt.wait n ∈ body → 0 ≤ n) → t ≤ timeAt t body k
  | [], t, k, _ => by simp [timeAt, stampBody, endTime]
  | s :: rest, t, k, hw => by
    have h0 : t ≤ stmtTime t s := by
      cases s with
      | wait n => have := hw n (by simp); simp only [stmtTime]; omega
      | _ => exact Int.le_refl _
    cases k with
    | zero => rw [timeAt_cons_zero]; exact h0
    | succ k =>
      rw [timeAt_cons_succ]
      exact Int.le_trans h0 (le_timeAt rest _ k (fun n hn => hw n (by simp [hn])))

/-- time labels do not go backwards: statement times are monotone -/
theorem timeAt_mono : ∀ (body : List JSStmt) (t : Int) (k : Nat), (∀ n, JSStmt.wait n ∈ body → 0 ≤ n) →
    timeAt t body k ≤ timeAt t body (k + 1)
  | [], t, k, _ => by simp [timeAt, stampBody]
  | s :: rest, t, 0, hw => by
    rw [timeAt_cons_zero, timeAt_cons_succ]
    exact le_timeAt rest _ 0 (fun n hn => hw n (by simp [hn]))
  | s :: rest, t, k + 1, hw => by
    rw [timeAt_cons_succ, timeAt_cons_succ]
    exact timeAt_mono rest _ k (fun n hn => hw n (by simp [hn]))

/-! ### the source machine keeps the time inside a statement -/

theorem runAssign_time {F : FloatOps} {diff : Nat} {m m' : Machine} {v : VarRef} {op : AssignOp} {e : SExpr}
    (h : runAssign F diff m v op e = .ok m') : m'.time = m.time := by
  unfold runAssign at h
  repeat' split at h
  all_goals first
    | (cases h; done)
    | (simp only [Outcome.ok.injEq] at h; subst h; rfl)

theorem runStmtJ_time {F : FloatOps} {diff : Nat} {m m' : Machine} {st : JSStmt} {fl : Option Goto}
    (h : runStmtJ F diff m st = .ok (m', fl)) : m'.time = m.time := by
  cases st with
  | base s =>
    simp only [runStmtJ] at h
    cases hs : runStmtS F diff m s with
    | err x => simp [hs] at h
    | panic x => simp [hs] at h
    | ok m1 =>
      simp only [hs, Outcome.ok.injEq, Prod.mk.injEq] at h
      obtain ⟨rfl, _⟩ := h
      cases s with
      | decl d ty init =>
        cases init with
        | none => simp only [runStmtS, Outcome.ok.injEq] at hs; subst hs; rfl
        | some e => simp only [runStmtS] at hs; exact runAssign_time hs
      | assign op v e => simp only [runStmtS] at hs; exact runAssign_time hs
      | call opcode args =>
        simp only [runStmtS, runCall] at hs
        split at hs
        · simp only [Outcome.ok.injEq] at hs; subst hs; rfl
        · cases hs
        · cases hs
      | scopeEnd d => simp only [runStmtS, Outcome.ok.injEq] at hs; subst hs; rfl
      | other => simp [runStmtS] at hs
  | label l => simp only [runStmtJ, Outcome.ok.injEq, Prod.mk.injEq] at h; obtain ⟨rfl, _⟩ := h; rfl
  | goto g => simp only [runStmtJ, Outcome.ok.injEq, Prod.mk.injEq] at h; obtain ⟨rfl, _⟩ := h; rfl
  | wait n => simp only [runStmtJ, Outcome.ok.injEq, Prod.mk.injEq] at h; obtain ⟨rfl, _⟩ := h; rfl
  | condGoto kw c g =>
    simp only [runStmtJ] at h
    split at h
    · simp only [Outcome.ok.injEq, Prod.mk.injEq] at h; obtain ⟨rfl, _⟩ := h; rfl
    · cases h
    · cases h

/-! ## the simulation -/

/-- how the fragment of a statement is left, given what the source statement does -/
def exitOf : Option Goto → Exit
  | none => .fall
  | some g => .jump g.l g.time

/-- **StmtSim**: the fragment `code`, lowered at time `t`, simulates the statement `st`: from a target state at time
`t` that satisfies `TInv` and agrees with the source machine on the observable variables `obs` and on the log, if
the source statement runs, the fragment is left the way the source goes on (at its end / by the jump to the same
label with the same explicit time), again in `TInv`, in agreement on `obs` and the log, at time `t` -/
def StmtSim (F : FloatOps) (diff : Nat) (obs : VarName → Prop) (TInv : Store → Prop) (st : JSStmt) (t : Int)
    (code : List JStmt) : Prop :=
  ∀ (j : JM) (m m' : Machine) (fl : Option Goto),
    TInv j.m.store → j.m.time = t → (∀ x, obs x → j.m.store x = m.store x) → j.m.log = m.log → m.time = t →
    runStmtJ F diff m st = .ok (m', fl) →
    ∃ j', execFrag F diff .run code j = .ok (exitOf fl, j') ∧ TInv j'.m.store ∧
      (∀ x, obs x → j'.m.store x = m'.store x) ∧ j'.m.log = m'.log ∧ j'.m.time = t

/-- every statement of the body, lowered with counters not below the initial ones, is simulated by its fragment -/
def BodySim (F : FloatOps) (diff : Nat) (obs : VarName → Prop) (TInv : Store → Prop) (I : JIntrinsics) (db ab mask g0 lg0 : Nat)
    (body : List JSStmt) : Prop :=
  ∀ st ∈ body, ∀ g lg t code g' lg', g0 ≤ g → lg0 ≤ lg → lowerStmtJ I db ab g lg t mask st = .ok (code, g', lg') →
    StmtSim F diff obs TInv st t code

/-- the relation between the source machine in front of statement `k` (time `T` of that statement) and the target
machine in front of its fragment: once both have waited until `T` they agree on `time` and `real_time`; the logs
with their `real_time` stamps are equal; the observable variables agree; the source time is not ahead of `T` -/
structure SimRel (obs : VarName → Prop) (TInv : Store → Prop) (T : Int) (S : VM) (U : TVM) : Prop where
  time : (U.vm.waitTo T).m.time = (S.waitTo T).m.time
  real : (U.vm.waitTo T).real = (S.waitTo T).real
  stamps : U.vm.stamps = S.stamps
  log : U.vm.m.log = S.m.log
  store : ∀ x, obs x → U.vm.m.store x = S.m.store x
  inv : TInv U.vm.m.store
  le : S.m.time ≤ T

theorem VM.waitTo_congr {a b : VM} (T : Int) (ht : a.m.time = b.m.time) (hr : a.real = b.real) :
    (a.waitTo T).m.time = (b.waitTo T).m.time ∧ (a.waitTo T).real = (b.waitTo T).real := by
  unfold VM.waitTo
  rw [ht]
  split
  · exact ⟨rfl, by simp [hr]⟩
  · exact ⟨ht, hr⟩

theorem userLabels_split (body : List JSStmt) (k : Nat) (st : JSStmt) (h : body[k]? = some st) :
    userLabels body = userLabels (body.take k) ++ (ownLabel st ++ userLabels (body.drop (k + 1))) := by
  have hk : k < body.length := by
    rcases Nat.lt_or_ge k body.length with h' | h'
    · exact h'
    · rw [List.getElem?_eq_none h'] at h; cases h
  have hst : body[k] = st := by
    rw [List.getElem?_eq_getElem hk] at h; exact Option.some.inj h
  have : body = body.take k ++ (st :: body.drop (k + 1)) := by
    rw [← hst, ← List.drop_eq_getElem_cons hk, List.take_append_drop]
  conv => lhs; rw [this]
  rw [userLabels_append]
  rfl

section sim
variable {F : FloatOps} {diff : Nat} {obs : VarName → Prop} {TInv : Store → Prop} {I : JIntrinsics} {db ab mask g0 lg0 : Nat}
  {t0 : Int} {body : List JSStmt} {P : List (Int × JStmt)}

/-- the fragment of a statement is hygienic inside the lowered stream and keeps the time -/
theorem frag_hygiene (wf : BodyWF lg0 t0 body) {k : Nat} {st : JSStmt} (hk : body[k]? = some st)
    {pre : List (Int × JStmt)} {code : List JStmt} {lgk lgk' : Nat} {tk : Int} (hlg : lg0 ≤ lgk)
    (hsh : StmtShape tk st lgk lgk' code)
    (hlab : ∀ l ∈ labelsOf (pre.map (·.2)), l ∈ userLabels (body.take k) ∨ (lg0 ≤ l ∧ l < lgk)) :
    Hygienic (pre.map (·.2)) code ∧ (∀ p ∈ timedJumps code, p.1 ∉ labelsOf code) := by
  have hmem : st ∈ body := List.mem_of_getElem? hk
  have hsplit := userLabels_split body k st hk
  refine ⟨⟨hsh.nodup, ?_⟩, ?_⟩
  · intro l hl hp
    rcases hsh.range l hl with ho | hr
    · -- the statement's own label
      have hlt : l < lg0 := wf.labelsLt l (by rw [hsplit]; simp [ho])
      rcases hlab l hp with hu | hr'
      · have hnd := wf.nodup
        rw [hsplit] at hnd
        exact (List.nodup_append.mp hnd).2.2 l hu l (by simp [ho]) rfl
      · omega
    · rcases hlab l hp with hu | hr'
      · have : l < lg0 := wf.labelsLt l (by rw [hsplit]; simp [hu])
        omega
      · omega
  · intro p hp hin
    obtain ⟨h1, h2⟩ := hsh.jumps p hp
    obtain ⟨hj, hown⟩ := jumpOfS_of_target_time h2
    have hlt : (stmtTarget st).l < lg0 := wf.targetsLt st hmem _ hj
    rcases hsh.range p.1 hin with ho | hr
    · rw [hown] at ho; cases ho
    · omega

/-- **sim_step**: one step of the source machine is matched by `c` steps of the target machine (at least one when
the source jumps), ending in front of the fragment of the next statement in a related state -/
theorem sim_step (hL : lowerBodyJ I db ab mask g0 lg0 t0 body = .ok P) (wf : BodyWF lg0 t0 body)
    (hsim : BodySim F diff obs TInv I db ab mask g0 lg0 body) {pc pc' : Nat} {S S' : VM} {U : TVM}
    (hstep : stepS F diff (stampBody t0 body) pc S = .ok (some (pc', S')))
    (R : SimRel obs TInv (timeAt t0 body pc) S U) :
    ∃ c U', ReachTn F diff P c (fragPos I db ab mask g0 lg0 t0 body pc) U (fragPos I db ab mask g0 lg0 t0 body pc') U' ∧
      SimRel obs TInv (timeAt t0 body pc') S' U' ∧ (pc' ≠ pc + 1 → 1 ≤ c) := by
  cases hB : (stampBody t0 body)[pc]? with
  | none => simp [stepS, hB] at hstep
  | some r =>
    obtain ⟨tk, st⟩ := r
    have hk := stampBody_get t0 body pc tk st hB
    have hmem : st ∈ body := List.mem_of_getElem? hk
    obtain ⟨pre, code, post, gk, lgk, gk', lgk', tk', hP, hst, hl, hg, hlg, hpos, hpos', hlab⟩ :=
      frag_at body g0 lg0 t0 P pc st hL hk
    rw [hB] at hst
    simp only [Option.some.injEq, Prod.mk.injEq] at hst
    obtain ⟨rfl, _⟩ := hst
    have hT : timeAt t0 body pc = tk := by simp [timeAt, hB]
    rw [hT] at R
    obtain ⟨_, _, hsh⟩ := shape_lowerStmtJ hl
    obtain ⟨hy, hjumps⟩ := frag_hygiene wf hk hlg hsh hlab
    have hS1t : (S.waitTo tk).m.time = tk := VM.waitTo_time_of_le R.le
    cases hrun : runStmtJ F diff (S.waitTo tk).m st with
    | err x => simp [stepS, hB, hrun] at hstep
    | panic x => simp [stepS, hB, hrun] at hstep
    | ok rr =>
      obtain ⟨m', fl⟩ := rr
      have hm't : m'.time = tk := by rw [runStmtJ_time hrun, hS1t]
      have hUt : (U.vm.waitTo tk).m.time = tk := by rw [R.time, hS1t]
      obtain ⟨j', hfrag, hinv', hstore', hlog', htime'⟩ :=
        hsim st hmem gk lgk tk code gk' lgk' hg hlg hl ⟨(U.vm.waitTo tk).m, U.cmp⟩ (S.waitTo tk).m m' fl
          (by simpa [VM.waitTo_store] using R.inv) hUt
          (by intro x hx; simpa [VM.waitTo_store] using R.store x hx)
          (by simpa [VM.waitTo_log] using R.log) hS1t hrun
      have hT1 := execFrag_reachTn F diff pre post tk code hy hsh.times hjumps code.length 0 U j' (exitOf fl) (by simp)
        (Nat.zero_le _) (by simpa using hfrag)
      rw [← hP] at hT1
      have hstampsU : ((U.vm.waitTo tk).after j'.m).stamps = ((S.waitTo tk).after m').stamps := by
        simp only [VM.after, VM.waitTo_stamps, VM.waitTo_log, R.stamps, R.log, R.real, hlog']
      cases fl with
      | none =>
        have hstep' : stepS F diff (stampBody t0 body) pc S = .ok (some (pc + 1, (S.waitTo tk).after m')) := by
          simp [stepS, hB, hrun]
        rw [hstep'] at hstep
        simp only [Outcome.ok.injEq, Option.some.injEq, Prod.mk.injEq] at hstep
        obtain ⟨rfl, rfl⟩ := hstep
        simp only [exitOf] at hT1
        obtain ⟨c, U', hreach, _, hw⟩ := hT1
        have hmono := timeAt_mono body t0 pc wf.waits
        rw [hT] at hmono
        have hR' : SimRel obs TInv (timeAt t0 body (pc + 1)) ((S.waitTo tk).after m') U' := by
          have hw' : U'.vm.waitTo (timeAt t0 body (pc + 1)) = ((U.vm.waitTo tk).after j'.m).waitTo (timeAt t0 body (pc + 1)) := by
            rw [← VM.waitTo_waitTo U'.vm hmono, hw]
          have hc := VM.waitTo_congr (a := (U.vm.waitTo tk).after j'.m) (b := (S.waitTo tk).after m') (timeAt t0 body (pc + 1))
            (by show j'.m.time = m'.time; rw [htime', hm't]) (by show (U.vm.waitTo tk).real = (S.waitTo tk).real; exact R.real)
          have hstore : U'.vm.m.store = j'.m.store := by
            have := congrArg (fun v => v.m.store) hw
            simpa [VM.waitTo_store, VM.after] using this
          have hlog : U'.vm.m.log = j'.m.log := by
            have := congrArg (fun v => v.m.log) hw
            simpa [VM.waitTo_log, VM.after] using this
          have hstamps : U'.vm.stamps = ((U.vm.waitTo tk).after j'.m).stamps := by
            have := congrArg (fun v => v.stamps) hw
            simpa [VM.waitTo_stamps] using this
          refine ⟨by rw [hw']; exact hc.1, by rw [hw']; exact hc.2, by rw [hstamps, hstampsU], ?_, ?_, ?_, ?_⟩
          · rw [hlog, hlog']; rfl
          · intro x hx; rw [hstore]; exact hstore' x hx
          · rw [hstore]; exact hinv'
          · show m'.time ≤ _; rw [hm't]; exact hmono
        refine ⟨c, U', ?_, hR', fun hne => absurd rfl hne⟩
        rw [hpos', ← hpos]
        simpa using hreach
      | some gt =>
        cases hfind : findLabelS (stampBody t0 body) gt.l 0 with
        | none => simp [stepS, hB, hrun, hfind] at hstep
        | some ri =>
          obtain ⟨i, tl⟩ := ri
          have hstep' : stepS F diff (stampBody t0 body) pc S =
              .ok (some (i, ((S.waitTo tk).after m').setTime (gt.time.getD tl))) := by
            simp [stepS, hB, hrun, hfind]
          rw [hstep'] at hstep
          simp only [Outcome.ok.injEq, Option.some.injEq, Prod.mk.injEq] at hstep
          obtain ⟨rfl, rfl⟩ := hstep
          simp only [exitOf] at hT1
          have hjs : jumpOfS st = some gt := by
            cases st with
            | goto g2 =>
              simp only [runStmtJ, Outcome.ok.injEq, Prod.mk.injEq, Option.some.injEq] at hrun
              simp [jumpOfS, hrun.2]
            | condGoto kw c g2 =>
              simp only [runStmtJ] at hrun
              split at hrun
              · simp only [Outcome.ok.injEq, Prod.mk.injEq] at hrun
                obtain ⟨_, hf⟩ := hrun
                split at hf
                · simp only [Option.some.injEq] at hf; simp [jumpOfS, hf]
                · cases hf
              · cases hrun
              · cases hrun
            | base s =>
              simp only [runStmtJ] at hrun
              split at hrun
              · simp at hrun
              · cases hrun
              · cases hrun
            | label l2 => simp [runStmtJ] at hrun
            | wait n => simp [runStmtJ] at hrun
          have hcorr := label_corr body g0 lg0 t0 P gt.l i tl hL (wf.targetsLt st hmem gt hjs) hfind
          obtain ⟨c, hc1, hreach⟩ := hT1 _ _ hcorr
          have hTi : timeAt t0 body i = tl := by simp [timeAt, findLabelS_get _ _ _ _ hfind]
          have hx : gt.time.getD tl ≤ tl := by
            cases hgt : gt.time with
            | none => simp
            | some x => simpa using wf.jumpTimes st hmem gt x hjs hgt i tl hfind
          have hR' : SimRel obs TInv (timeAt t0 body i) (((S.waitTo tk).after m').setTime (gt.time.getD tl))
              ⟨((U.vm.waitTo tk).after j'.m).setTime (gt.time.getD tl), j'.cmp⟩ := by
            rw [hTi]
            have hc := VM.waitTo_congr (a := ((U.vm.waitTo tk).after j'.m).setTime (gt.time.getD tl))
              (b := ((S.waitTo tk).after m').setTime (gt.time.getD tl)) tl rfl
              (by show (U.vm.waitTo tk).real = (S.waitTo tk).real; exact R.real)
            refine ⟨hc.1, hc.2, hstampsU, ?_, ?_, ?_, hx⟩
            · show j'.m.log = m'.log; exact hlog'
            · intro x hx'; exact hstore' x hx'
            · exact hinv'
          refine ⟨c, _, ?_, hR', fun _ => hc1⟩
          rw [← hpos]
          simpa using hreach

/-- **body_sim**: every terminating run of the source machine from statement `pc` is matched by the target machine
from the position of that statement's fragment, and the final states are related at the end time of the body -/
theorem body_sim (hL : lowerBodyJ I db ab mask g0 lg0 t0 body = .ok P) (wf : BodyWF lg0 t0 body)
    (hsim : BodySim F diff obs TInv I db ab mask g0 lg0 body) :
    ∀ (fuel pc : Nat) (S : VM) (U : TVM) (Sf : VM), runJS F diff (stampBody t0 body) fuel pc S = .ok Sf →
      SimRel obs TInv (timeAt t0 body pc) S U →
      ∃ Uf, ReachT F diff P (fragPos I db ab mask g0 lg0 t0 body pc) U P.length Uf ∧
        SimRel obs TInv (endTime t0 body) Sf Uf
  | 0, _, _, _, _, h, _ => by simp [runJS] at h
  | fuel + 1, pc, S, U, Sf, h, R => by
    simp only [runJS] at h
    cases hstep : stepS F diff (stampBody t0 body) pc S with
    | err c => simp [hstep] at h
    | panic c => simp [hstep] at h
    | ok r =>
      cases r with
      | none =>
        simp only [hstep, Outcome.ok.injEq] at h
        subst h
        have hB : (stampBody t0 body)[pc]? = none := by
          cases hB : (stampBody t0 body)[pc]? with
          | none => rfl
          | some r =>
            obtain ⟨tk, st⟩ := r
            simp only [stepS, hB] at hstep
            repeat' split at hstep
            all_goals simp at hstep
        have hlen : body.length ≤ pc := by
          have := List.getElem?_eq_none_iff.mp hB
          rwa [stampBody_length] at this
        rw [fragPos_end body g0 lg0 t0 P pc hL hlen]
        have hT : timeAt t0 body pc = endTime t0 body := by simp [timeAt, hB]
        rw [hT] at R
        exact ⟨U, .refl _ _, R⟩
      | some ps =>
        obtain ⟨pc', S'⟩ := ps
        simp only [hstep] at h
        obtain ⟨c, U', hreach, hR', _⟩ := sim_step hL wf hsim hstep R
        obtain ⟨Uf, hreach2, hRf⟩ := body_sim hL wf hsim fuel pc' S' U' Sf h hR'
        exact ⟨Uf, ReachT.trans hreach.toReachT hreach2, hRf⟩

/-! ## runs that do not stop -/

/-- `n` steps of the source machine, `j` of them not to the next statement -/
inductive StepsS (F : FloatOps) (diff : Nat) (B : List (Int × JSStmt)) : Nat → Nat → Nat → VM → Nat → VM → Prop
  | refl (pc : Nat) (S : VM) : StepsS F diff B 0 0 pc S pc S
  | step (n j pc : Nat) (S : VM) (pc1 : Nat) (S1 : VM) (pc2 : Nat) (S2 : VM) :
      stepS F diff B pc S = .ok (some (pc1, S1)) → StepsS F diff B n j pc1 S1 pc2 S2 →
      StepsS F diff B (n + 1) (j + (if pc1 = pc + 1 then 0 else 1)) pc S pc2 S2

/-- steps that all go to the next statement stay inside the body: there are at most `B.length` of them -/
theorem StepsS.straight {F : FloatOps} {diff : Nat} {B : List (Int × JSStmt)} {n j pc pc2 : Nat} {S S2 : VM}
    (h : StepsS F diff B n j pc S pc2 S2) : j = 0 → pc + n = pc2 ∧ (0 < n → pc2 ≤ B.length) := by
  induction h with
  | refl pc S => intro _; exact ⟨rfl, fun h => absurd h (Nat.lt_irrefl 0)⟩
  | step n j pc S pc1 S1 pc2 S2 hs _ ih =>
    intro hj
    have hpc1 : pc1 = pc + 1 := by
      by_cases e : pc1 = pc + 1
      · exact e
      · simp [e] at hj
    have hj0 : j = 0 := by simp [hpc1] at hj; exact hj
    obtain ⟨h1, h2⟩ := ih hj0
    have hlt : pc < B.length := by
      cases hB : B[pc]? with
      | none => simp [stepS, hB] at hs
      | some r =>
        rcases Nat.lt_or_ge pc B.length with h' | h'
        · exact h'
        · rw [List.getElem?_eq_none h'] at hB; cases hB
    refine ⟨by omega, fun _ => ?_⟩
    rcases Nat.eq_zero_or_pos n with hn | hn
    · subst hn; omega
    · exact h2 hn

/-- more than `B.length` steps contain one that does not go to the next statement -/
theorem StepsS.jumps {F : FloatOps} {diff : Nat} {B : List (Int × JSStmt)} {n j pc pc2 : Nat} {S S2 : VM}
    (h : StepsS F diff B n j pc S pc2 S2) (hn : B.length < n) : 1 ≤ j := by
  rcases Nat.eq_zero_or_pos j with hj | hj
  · obtain ⟨h1, h2⟩ := h.straight hj
    have := h2 (by omega)
    omega
  · exact hj

theorem StepsS.trans {F : FloatOps} {diff : Nat} {B : List (Int × JSStmt)} {n j m k pc pc1 pc2 : Nat} {S S1 S2 : VM}
    (h1 : StepsS F diff B n j pc S pc1 S1) (h2 : StepsS F diff B m k pc1 S1 pc2 S2) :
    StepsS F diff B (n + m) (j + k) pc S pc2 S2 := by
  induction h1 with
  | refl => simpa using h2
  | step n j pc S pa Sa pb Sb hs _ ih =>
    have := StepsS.step _ _ _ _ _ _ _ _ hs (ih h2)
    rw [show n + 1 + m = n + m + 1 by omega,
      show j + (if pa = pc + 1 then 0 else 1) + k = j + k + (if pa = pc + 1 then 0 else 1) by omega]
    exact this

/-- the machine is deterministic: a run of `n + m` steps passes through the state reached after `n` steps -/
theorem StepsS.split {F : FloatOps} {diff : Nat} {B : List (Int × JSStmt)} {n j pc pc1 : Nat} {S S1 : VM}
    (h1 : StepsS F diff B n j pc S pc1 S1) : ∀ {m k pc2 S2}, StepsS F diff B (n + m) k pc S pc2 S2 →
    ∃ k', StepsS F diff B m k' pc1 S1 pc2 S2 := by
  induction h1 with
  | refl pc S => intro m k pc2 S2 h2; exact ⟨k, by simpa using h2⟩
  | step n j pc S pa Sa pb Sb hs _ ih =>
    intro m k pc2 S2 h2
    rw [show n + 1 + m = (n + m) + 1 by omega] at h2
    cases h2 with
    | step n' j' _ _ pa' Sa' _ _ hs' hrest =>
      rw [hs] at hs'
      simp only [Outcome.ok.injEq, Option.some.injEq, Prod.mk.injEq] at hs'
      obtain ⟨rfl, rfl⟩ := hs'
      exact ih hrest

/-- several source steps: the target makes at least as many steps as the source jumps -/
theorem sim_steps (hL : lowerBodyJ I db ab mask g0 lg0 t0 body = .ok P) (wf : BodyWF lg0 t0 body)
    (hsim : BodySim F diff obs TInv I db ab mask g0 lg0 body) {n j pc pc' : Nat} {S S' : VM}
    (h : StepsS F diff (stampBody t0 body) n j pc S pc' S') :
    ∀ U, SimRel obs TInv (timeAt t0 body pc) S U →
    ∃ c U', ReachTn F diff P c (fragPos I db ab mask g0 lg0 t0 body pc) U (fragPos I db ab mask g0 lg0 t0 body pc') U' ∧
      SimRel obs TInv (timeAt t0 body pc') S' U' ∧ j ≤ c := by
  induction h with
  | refl pc S => intro U R; exact ⟨0, U, .refl _ _, R, Nat.le_refl _⟩
  | step n j pc S pc1 S1 pc2 S2 hs _ ih =>
    intro U R
    obtain ⟨c1, U1, hr1, R1, hc1⟩ := sim_step hL wf hsim hs R
    obtain ⟨c2, U2, hr2, R2, hc2⟩ := ih U1 R1
    refine ⟨c1 + c2, U2, hr1.trans hr2, R2, ?_⟩
    by_cases e : pc1 = pc + 1
    · simp [e]; omega
    · have := hc1 e
      simp [e]; omega

/-- **body_diverges**: if the source machine can make any number of steps (it neither stops nor fails), so can the
target machine - the compiled script does not stop or fail either -/
theorem body_diverges (hL : lowerBodyJ I db ab mask g0 lg0 t0 body = .ok P) (wf : BodyWF lg0 t0 body)
    (hsim : BodySim F diff obs TInv I db ab mask g0 lg0 body) (S0 : VM) (U0 : TVM)
    (R0 : SimRel obs TInv (timeAt t0 body 0) S0 U0)
    (hdiv : ∀ n, ∃ j pc S, StepsS F diff (stampBody t0 body) n j 0 S0 pc S) :
    ∀ K, ∃ c pc U, K ≤ c ∧ ReachTn F diff P c 0 U0 pc U := by
  have h0 : fragPos I db ab mask g0 lg0 t0 body 0 = 0 := by cases body <;> rfl
  -- invariant: after some source steps the target has made at least K steps and the states are related
  have key : ∀ K, ∃ n j pc S c U, StepsS F diff (stampBody t0 body) n j 0 S0 pc S ∧
      ReachTn F diff P c 0 U0 (fragPos I db ab mask g0 lg0 t0 body pc) U ∧ SimRel obs TInv (timeAt t0 body pc) S U ∧ K ≤ c := by
    intro K
    induction K with
    | zero => exact ⟨0, 0, 0, S0, 0, U0, .refl _ _, by rw [h0]; exact .refl _ _, R0, Nat.le_refl _⟩
    | succ K ih =>
      obtain ⟨n, j, pc, S, c, U, hs, hr, R, hK⟩ := ih
      obtain ⟨j2, pc2, S2, hs2⟩ := hdiv (n + ((stampBody t0 body).length + 1))
      obtain ⟨k', hrest⟩ := hs.split hs2
      have hjump : 1 ≤ k' := hrest.jumps (Nat.lt_succ_self _)
      obtain ⟨c2, U2, hr2, R2, hc2⟩ := sim_steps hL wf hsim hrest U R
      exact ⟨_, _, pc2, S2, c + c2, U2, hs.trans hrest, hr.trans hr2, R2, by omega⟩
  intro K
  obtain ⟨n, j, pc, S, c, U, _, hr, _, hK⟩ := key K
  exact ⟨c, _, U, hK, hr⟩

end sim

end TruthModel.Lower
