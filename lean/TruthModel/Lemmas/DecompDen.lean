/-
C07, semantic half, layer 2: the resolved code of the lowering of a tree, computed structurally
(`denL`): original jumps go where `pos` puts their label, the jumps that `lower` introduces for
loops, cond chains and `break` go to structurally computed code indices.  No fresh label names
appear, so reconstruction steps can be compared by plain equality of `denL`.
-/
import TruthModel.Lemmas.Decomp
import TruthModel.Lemmas.DecompVm
namespace TruthModel.Decomp
open List

/-! ### number of code statements of the lowering -/

def clenAtom : Atom → Nat
  | .label _ => 0
  | _ => 1

/-- a cond block that is followed by another block ends with a jump to the end of the chain -/
def jcount (rest : List Stmt) : Nat :=
  match rest with
  | [] => 0
  | _ => 1

def jtail (e : Nat) (rest : List Stmt) : List Leaf :=
  match rest with
  | [] => []
  | _ => [(none, .jump (.goto e none))]

@[simp] theorem jcount_nil : jcount [] = 0 := rfl
@[simp] theorem jcount_cons (s : Stmt) (ss : List Stmt) : jcount (s :: ss) = 1 := rfl
@[simp] theorem jtail_nil (e : Nat) : jtail e [] = [] := rfl
@[simp] theorem jtail_cons (e : Nat) (s : Stmt) (ss : List Stmt) : jtail e (s :: ss) = [(none, .jump (.goto e none))] := rfl
theorem length_jtail (e : Nat) (rest : List Stmt) : (jtail e rest).length = jcount rest := by cases rest <;> rfl

mutual
def clenS : Stmt → Nat
  | .atom _ a => clenAtom a
  | .node k b =>
    match k with
    | .loop _ => clenL b + 1
    | .doWhile _ _ => clenL b + 1
    | .chain => clenArms b
    | _ => clenL b
def clenL : List Stmt → Nat
  | [] => 0
  | s :: ss => clenS s + clenL ss
def clenArms : List Stmt → Nat
  | [] => 0
  | .node k b :: rest =>
    (match k with
     | .arm _ _ => 1 + clenL b + jcount rest
     | _ => clenL b) + clenArms rest
  | .atom _ a :: rest => clenAtom a + clenArms rest
end

/-! ### resolved code of the lowering -/

def brkJ (brk : Option Nat) : Jump :=
  match brk with
  | some e => .goto e none
  | none => .brk

/-- `break` goes to the end of the innermost loop, a goto to the position of its label -/
def denJ (pos : Nat → Option Nat) (brk : Option Nat) : Jump → Jump
  | .brk => brkJ brk
  | .goto l t => rj pos (.goto l t)

def denAtom (pos : Nat → Option Nat) (brk : Option Nat) (d : Option String) : Atom → List Leaf
  | .label _ => []
  | .jump j => [(d, .jump (denJ pos brk j))]
  | .condJump kw c j => [(d, .condJump (normCond kw c).1 (normCond kw c).2 (denJ pos brk j))]
  | a => [(d, a)]

def flipKw : Kw → Kw
  | .if_ => .unless
  | .unless => .if_

mutual
/-- `o`: code index at which the statement starts -/
def denS (pos : Nat → Option Nat) (brk : Option Nat) : Stmt → Nat → List Leaf
  | .atom d a, _ => denAtom pos brk d a
  | .node k b, o =>
    match k with
    | .loop _ => denL pos (some (o + clenL b + 1)) b o ++ [(none, .jump (.goto o none))]
    | .doWhile _ c => denL pos (some (o + clenL b + 1)) b o ++ [(none, .condJump .if_ c (.goto o none))]
    | .chain => denArms pos brk (o + clenArms b) b o
    | _ => denL pos brk b o
def denL (pos : Nat → Option Nat) (brk : Option Nat) : List Stmt → Nat → List Leaf
  | [], _ => []
  | s :: ss, o => denS pos brk s o ++ denL pos brk ss (o + clenS s)
/-- `e`: code index of the end of the chain -/
def denArms (pos : Nat → Option Nat) (brk : Option Nat) (e : Nat) : List Stmt → Nat → List Leaf
  | [], _ => []
  | .node k b :: rest, o =>
    match k with
    | .arm kw c =>
      (none, .condJump (normCond (flipKw kw) c).1 (normCond (flipKw kw) c).2
          (.goto (o + 1 + clenL b + jcount rest) none)) ::
        denL pos brk b (o + 1) ++ jtail e rest ++
        denArms pos brk e rest (o + 1 + clenL b + jcount rest)
    | _ => denL pos brk b o ++ denArms pos brk e rest (o + clenL b)
  | .atom d a :: rest, o => denAtom pos none d a ++ denArms pos brk e rest (o + clenAtom a)
end

/-! ### where labels and loops sit -/

mutual
/-- every label definition of the tree sits where `pos` says, every loop ends where `f` says, chains
consist of arms and else blocks -/
def InvS (pos : Nat → Option Nat) (f : Nat → Nat) : Stmt → Nat → Prop
  | .atom _ a, o => (match a with | .label l => pos l = some o | _ => True)
  | .node k b, o =>
    match k with
    | .loop id => o + clenL b = f id ∧ InvL pos f b o
    | .doWhile id _ => o + clenL b = f id ∧ InvL pos f b o
    | .chain => InvArms pos f b o
    | _ => InvL pos f b o
def InvL (pos : Nat → Option Nat) (f : Nat → Nat) : List Stmt → Nat → Prop
  | [], _ => True
  | s :: ss, o => InvS pos f s o ∧ InvL pos f ss (o + clenS s)
def InvArms (pos : Nat → Option Nat) (f : Nat → Nat) : List Stmt → Nat → Prop
  | [], _ => True
  | .node k b :: rest, o =>
    match k with
    | .arm _ _ => InvL pos f b (o + 1) ∧ InvArms pos f rest (o + 1 + clenL b + jcount rest)
    | .els => InvL pos f b o ∧ InvArms pos f rest (o + clenL b)
    | _ => False
  | .atom _ _ :: _, _ => False
end

/-! ### append -/

@[simp] theorem clenL_nil : clenL [] = 0 := by simp [clenL]
@[simp] theorem clenL_cons (s : Stmt) (ss : List Stmt) : clenL (s :: ss) = clenS s + clenL ss := by simp [clenL]
@[simp] theorem denL_nil (pos brk o) : denL pos brk [] o = [] := by simp [denL]
@[simp] theorem denL_cons (pos brk s ss o) : denL pos brk (s :: ss) o = denS pos brk s o ++ denL pos brk ss (o + clenS s) := by
  simp [denL]
@[simp] theorem InvL_nil (pos f o) : InvL pos f [] o = True := by simp [InvL]
@[simp] theorem InvL_cons (pos f s ss o) : InvL pos f (s :: ss) o = (InvS pos f s o ∧ InvL pos f ss (o + clenS s)) := by
  simp [InvL]

theorem clenL_append (a b : List Stmt) : clenL (a ++ b) = clenL a + clenL b := by
  induction a with
  | nil => simp
  | cons s ss ih => simp [ih, Nat.add_assoc]

theorem denL_append (pos brk) (a b : List Stmt) (o : Nat) :
    denL pos brk (a ++ b) o = denL pos brk a o ++ denL pos brk b (o + clenL a) := by
  induction a generalizing o with
  | nil => simp
  | cons s ss ih => simp [ih, Nat.add_assoc]

theorem InvL_append (pos f) (a b : List Stmt) (o : Nat) :
    InvL pos f (a ++ b) o ↔ InvL pos f a o ∧ InvL pos f b (o + clenL a) := by
  induction a generalizing o with
  | nil => simp
  | cons s ss ih => simp [ih, Nat.add_assoc, and_assoc]

@[simp] theorem clenS_atom (d a) : clenS (.atom d a) = clenAtom a := by simp [clenS]
@[simp] theorem clenS_loop (id b) : clenS (.node (.loop id) b) = clenL b + 1 := by simp [clenS]
@[simp] theorem clenS_doWhile (id c b) : clenS (.node (.doWhile id c) b) = clenL b + 1 := by simp [clenS]
@[simp] theorem clenS_chain (b) : clenS (.node .chain b) = clenArms b := by simp [clenS]
@[simp] theorem clenS_arm (kw c b) : clenS (.node (.arm kw c) b) = clenL b := by simp [clenS]
@[simp] theorem clenS_els (b) : clenS (.node .els b) = clenL b := by simp [clenS]

@[simp] theorem denS_atom (pos brk d a o) : denS pos brk (.atom d a) o = denAtom pos brk d a := by simp [denS]
@[simp] theorem denS_loop (pos brk id b o) : denS pos brk (.node (.loop id) b) o =
    denL pos (some (o + clenL b + 1)) b o ++ [(none, .jump (.goto o none))] := by simp [denS]
@[simp] theorem denS_doWhile (pos brk id c b o) : denS pos brk (.node (.doWhile id c) b) o =
    denL pos (some (o + clenL b + 1)) b o ++ [(none, .condJump .if_ c (.goto o none))] := by simp [denS]
@[simp] theorem denS_chain (pos brk b o) : denS pos brk (.node .chain b) o = denArms pos brk (o + clenArms b) b o := by
  simp [denS]
@[simp] theorem denS_arm (pos brk kw c b o) : denS pos brk (.node (.arm kw c) b) o = denL pos brk b o := by simp [denS]
@[simp] theorem denS_els (pos brk b o) : denS pos brk (.node .els b) o = denL pos brk b o := by simp [denS]

@[simp] theorem InvS_atom (pos f d a o) : InvS pos f (.atom d a) o = (match a with | .label l => pos l = some o | _ => True) := by
  simp [InvS]
@[simp] theorem InvS_loop (pos f id b o) : InvS pos f (.node (.loop id) b) o = (o + clenL b = f id ∧ InvL pos f b o) := by
  simp [InvS]
@[simp] theorem InvS_doWhile (pos f id c b o) : InvS pos f (.node (.doWhile id c) b) o = (o + clenL b = f id ∧ InvL pos f b o) := by
  simp [InvS]
@[simp] theorem InvS_chain (pos f b o) : InvS pos f (.node .chain b) o = InvArms pos f b o := by simp [InvS]
@[simp] theorem InvS_arm (pos f kw c b o) : InvS pos f (.node (.arm kw c) b) o = InvL pos f b o := by simp [InvS]
@[simp] theorem InvS_els (pos f b o) : InvS pos f (.node .els b) o = InvL pos f b o := by simp [InvS]

theorem length_denAtom (pos brk d a) : (denAtom pos brk d a).length = clenAtom a := by
  cases a <;> rfl

mutual
theorem length_denS (pos) : ∀ (brk : Option Nat) (s : Stmt) (o : Nat), (denS pos brk s o).length = clenS s
  | brk, .atom d a, o => by simp [length_denAtom]
  | brk, .node k b, o => by
    cases k with
    | loop id => simp [length_denL pos _ b o]
    | doWhile id c => simp [length_denL pos _ b o]
    | chain => simp [length_denArms pos brk _ b o]
    | arm kw c => simp [length_denL pos brk b o]
    | els => simp [length_denL pos brk b o]
theorem length_denL (pos) : ∀ (brk : Option Nat) (ss : List Stmt) (o : Nat), (denL pos brk ss o).length = clenL ss
  | brk, [], o => by simp
  | brk, s :: ss, o => by simp [length_denS pos brk s o, length_denL pos brk ss _]
theorem length_denArms (pos) : ∀ (brk : Option Nat) (e : Nat) (ss : List Stmt) (o : Nat),
    (denArms pos brk e ss o).length = clenArms ss
  | brk, e, [], o => by simp [denArms, clenArms]
  | brk, e, .atom d a :: rest, o => by
    simp [denArms, clenArms, length_denAtom, length_denArms pos brk e rest _]
  | brk, e, .node k b :: rest, o => by
    cases k with
    | arm kw c =>
      cases rest with
      | nil => simp [denArms, clenArms, length_denL pos brk b _]; omega
      | cons r rs =>
        simp [denArms, clenArms, length_denL pos brk b _, length_denArms pos brk e (r :: rs) _]; omega
    | loop id => simp [denArms, clenArms, length_denL pos brk b _, length_denArms pos brk e rest _]
    | doWhile id c => simp [denArms, clenArms, length_denL pos brk b _, length_denArms pos brk e rest _]
    | chain => simp [denArms, clenArms, length_denL pos brk b _, length_denArms pos brk e rest _]
    | els => simp [denArms, clenArms, length_denL pos brk b _, length_denArms pos brk e rest _]
end

/-! ### trees without `break`: the enclosing loop does not matter -/

def isBrkLeaf : Leaf → Bool
  | (_, .jump .brk) => true
  | (_, .condJump _ _ .brk) => true
  | _ => false

def NoBrkA (l : List Leaf) : Prop := ∀ p ∈ l, isBrkLeaf p = false

theorem NoBrkA.append {a b : List Leaf} : NoBrkA (a ++ b) ↔ NoBrkA a ∧ NoBrkA b := by
  simp only [NoBrkA, List.mem_append]
  exact ⟨fun h => ⟨fun p hp => h p (.inl hp), fun p hp => h p (.inr hp)⟩,
    fun h p hp => hp.elim (h.1 p) (h.2 p)⟩

theorem denAtom_nobrk (pos brk brk' d a) (h : isBrkLeaf (d, a) = false) : denAtom pos brk d a = denAtom pos brk' d a := by
  cases a with
  | jump j => cases j with
    | brk => simp [isBrkLeaf] at h
    | goto l t => rfl
  | condJump kw c j => cases j with
    | brk => simp [isBrkLeaf] at h
    | goto l t => rfl
  | _ => rfl

mutual
theorem denS_nobrk (pos) : ∀ (brk brk' : Option Nat) (s : Stmt) (o : Nat), NoBrkA s.atoms → denS pos brk s o = denS pos brk' s o
  | brk, brk', .atom d a, o, h => by
    simp only [denS_atom]
    exact denAtom_nobrk pos brk brk' d a (h (d, a) (by simp))
  | brk, brk', .node k b, o, h => by
    cases k with
    | loop id => rfl
    | doWhile id c => rfl
    | chain => simp only [denS_chain]; exact denArms_nobrk pos brk brk' _ b o (by simpa using h)
    | arm kw c => simp only [denS_arm]; exact denL_nobrk pos brk brk' b o (by simpa using h)
    | els => simp only [denS_els]; exact denL_nobrk pos brk brk' b o (by simpa using h)
theorem denL_nobrk (pos) : ∀ (brk brk' : Option Nat) (ss : List Stmt) (o : Nat), NoBrkA (atomsL ss) →
    denL pos brk ss o = denL pos brk' ss o
  | brk, brk', [], o, _ => by simp
  | brk, brk', s :: ss, o, h => by
    rw [atomsL_cons, NoBrkA.append] at h
    simp only [denL_cons]
    rw [denS_nobrk pos brk brk' s o h.1, denL_nobrk pos brk brk' ss _ h.2]
theorem denArms_nobrk (pos) : ∀ (brk brk' : Option Nat) (e : Nat) (ss : List Stmt) (o : Nat), NoBrkA (atomsL ss) →
    denArms pos brk e ss o = denArms pos brk' e ss o
  | brk, brk', e, [], o, _ => by simp [denArms]
  | brk, brk', e, .atom d a :: rest, o, h => by
    rw [atomsL_cons, NoBrkA.append] at h
    simp only [denArms]
    rw [denArms_nobrk pos brk brk' e rest _ h.2]
  | brk, brk', e, .node k b :: rest, o, h => by
    rw [atomsL_cons, NoBrkA.append, atoms_node] at h
    cases k with
    | arm kw c =>
      simp only [denArms]
      rw [denL_nobrk pos brk brk' b _ h.1, denArms_nobrk pos brk brk' e rest _ h.2]
    | loop id => simp only [denArms]; rw [denL_nobrk pos brk brk' b _ h.1, denArms_nobrk pos brk brk' e rest _ h.2]
    | doWhile id c => simp only [denArms]; rw [denL_nobrk pos brk brk' b _ h.1, denArms_nobrk pos brk brk' e rest _ h.2]
    | chain => simp only [denArms]; rw [denL_nobrk pos brk brk' b _ h.1, denArms_nobrk pos brk brk' e rest _ h.2]
    | els => simp only [denArms]; rw [denL_nobrk pos brk brk' b _ h.1, denArms_nobrk pos brk brk' e rest _ h.2]
end

/-! ### only the positions of mentioned labels matter -/

theorem denJ_congr {pos pos' : Nat → Option Nat} (brk) (j : Jump) (h : ∀ l ∈ j.refs, pos l = pos' l) :
    denJ pos brk j = denJ pos' brk j := by
  cases j with
  | brk => rfl
  | goto l t => simp only [denJ, rj]; rw [h l (by simp [Jump.refs])]

theorem denAtom_congr {pos pos' : Nat → Option Nat} (brk d) (a : Atom) (h : ∀ l ∈ a.refs, pos l = pos' l) :
    denAtom pos brk d a = denAtom pos' brk d a := by
  cases a with
  | jump j => simp only [denAtom]; rw [denJ_congr brk j (by simpa [Atom.refs] using h)]
  | condJump kw c j =>
    simp only [denAtom]
    rw [denJ_congr brk j (fun l hl => h l (by simp [Atom.refs, hl]))]
  | _ => rfl

mutual
theorem denS_congr {pos pos' : Nat → Option Nat} : ∀ (brk : Option Nat) (s : Stmt) (o : Nat),
    (∀ l ∈ s.refs, pos l = pos' l) → denS pos brk s o = denS pos' brk s o
  | brk, .atom d a, o, h => by simp only [denS_atom]; exact denAtom_congr brk d a (by simpa using h)
  | brk, .node k b, o, h => by
    have hb : ∀ l ∈ refsL b, pos l = pos' l := fun l hl => h l (by simp [hl])
    cases k with
    | loop id => simp only [denS_loop]; rw [denL_congr _ b o hb]
    | doWhile id c => simp only [denS_doWhile]; rw [denL_congr _ b o hb]
    | chain => simp only [denS_chain]; rw [denArms_congr brk _ b o hb]
    | arm kw c => simp only [denS_arm]; rw [denL_congr _ b o hb]
    | els => simp only [denS_els]; rw [denL_congr _ b o hb]
theorem denL_congr {pos pos' : Nat → Option Nat} : ∀ (brk : Option Nat) (ss : List Stmt) (o : Nat),
    (∀ l ∈ refsL ss, pos l = pos' l) → denL pos brk ss o = denL pos' brk ss o
  | brk, [], o, _ => by simp
  | brk, s :: ss, o, h => by
    simp only [denL_cons]
    rw [denS_congr brk s o (fun l hl => h l (by simp [hl])), denL_congr brk ss _ (fun l hl => h l (by simp [hl]))]
theorem denArms_congr {pos pos' : Nat → Option Nat} : ∀ (brk : Option Nat) (e : Nat) (ss : List Stmt) (o : Nat),
    (∀ l ∈ refsL ss, pos l = pos' l) → denArms pos brk e ss o = denArms pos' brk e ss o
  | brk, e, [], o, _ => by simp [denArms]
  | brk, e, .atom d a :: rest, o, h => by
    simp only [denArms]
    rw [denAtom_congr none d a (fun l hl => h l (by simp [hl])), denArms_congr brk e rest _ (fun l hl => h l (by simp [hl]))]
  | brk, e, .node k b :: rest, o, h => by
    have hb : ∀ l ∈ refsL b, pos l = pos' l := fun l hl => h l (by simp [hl])
    have hr : ∀ l ∈ refsL rest, pos l = pos' l := fun l hl => h l (by simp [hl])
    cases k <;> simp only [denArms] <;> rw [denL_congr brk b _ hb, denArms_congr brk e rest _ hr]
end

end TruthModel.Decomp
