/-
C07, semantic half: what `gather_cond_chain` guarantees about every cond block of a chain, in the
form the semantic proof needs: the exact conditional jump at the head (with the negated operator in
the block's condition) and the exact `goto end` in front of every label but the last.
-/
import TruthModel.Lemmas.Decomp
namespace TruthModel.Decomp
open List

/-- the head of a cond block -/
def ArmHead (ss : Block) (cb : CondBlockInfo) : Prop :=
  ∃ op nop a b d, ss[cb.ifIndex]? = some (.atom none (.condJump .if_ (.bin op a b) (.goto d none))) ∧
    labelIndex ss d = some cb.labelIndex ∧ op.negate = some nop ∧ cb.kw = .if_ ∧ cb.cond = .bin nop a b

/-- the jump to the end of the chain in front of the label of a cond block -/
def ArmTail (ss : Block) (e : Nat) (cb : CondBlockInfo) : Prop :=
  ∃ dE, ss[cb.labelIndex - 1]? = some (.atom none (.jump (.goto dE none))) ∧ labelIndex ss dE = some e

/-- a cond block of a chain that is still being gathered (it is followed by another block or an `else`);
`e` is the common end -/
structure ArmAcc2 (ss : Block) (e : Nat) (cb : CondBlockInfo) : Prop where
  lt : cb.ifIndex < cb.labelIndex
  head : ArmHead ss cb
  tail : ArmTail ss e cb

/-- a cond block of a finished chain with end label index `e` -/
structure ArmFin (ss : Block) (e : Nat) (cb : CondBlockInfo) : Prop where
  lt : cb.ifIndex < cb.labelIndex
  head : ArmHead ss cb
  tail : cb.labelIndex ≠ e → ArmTail ss e cb

theorem ArmAcc2.fin {ss e cb} (h : ArmAcc2 ss e cb) : ArmFin ss e cb := ⟨h.lt, h.head, fun _ => h.tail⟩

theorem jmpAt_cond' {ss : Block} {rc : Nat → Nat} {i : Nat} {j : JmpInfo} {kw c} (h : jmpAt ss rc i = some j)
    (hk : j.kind = .cond kw c) (ht : j.time = none) :
    kw = .if_ ∧ ∃ d, ss[i]? = some (.atom none (.condJump .if_ c (.goto d none))) ∧ labelIndex ss d = some j.dest := by
  obtain ⟨s, hs, hj⟩ := jmpAt_some h
  rcases jmpInfo_some hj with ⟨d, _, hk', _⟩ | ⟨c', d, hs', hk', hl, _⟩
  · rw [hk] at hk'; cases hk'
  · rw [hk] at hk'; cases hk'
    exact ⟨rfl, d, by rw [hs, hs', ht], hl⟩

theorem jmpAt_uncond {ss : Block} {rc : Nat → Nat} {i : Nat} {j : JmpInfo} (h : jmpAt ss rc i = some j)
    (hk : j.kind.isCond = false) (ht : j.time = none) :
    ∃ d, ss[i]? = some (.atom none (.jump (.goto d none))) ∧ labelIndex ss d = some j.dest := by
  obtain ⟨s, hs, hj⟩ := jmpAt_some h
  rcases jmpInfo_some hj with ⟨d, hs', _, hl, _⟩ | ⟨c', d, _, hk', _⟩
  · exact ⟨d, by rw [hs, hs', ht], hl⟩
  · rw [hk'] at hk; simp [JmpKind.isCond] at hk

theorem gatherGo_sem {ss : Block} {rc : Nat → Nat} : ∀ (fuel src : Nat) (chain : List CondBlockInfo)
    (ke : Option Nat) (info : ChainInfo), (∀ cb ∈ chain, ∃ k, ke = some k ∧ ArmAcc2 ss k cb) →
    gatherGo ss rc fuel src chain ke = some info →
    info.chain ≠ [] ∧ ∀ cb ∈ info.chain, ArmFin ss info.endLabel cb
  | 0, _, _, _, _, _, h => by simp [gatherGo] at h
  | fuel + 1, src, chain, ke, info, hacc, h => by
    unfold gatherGo at h
    split at h
    · cases h
    · rename_i ifJ hif
      split at h
      · cases h
      · rename_i ht
        split at h
        · cases h
        · rename_i hdir
          split at h
          · cases h
          · cases h
          · rename_i kw op a b hkind
            split at h
            · cases h
            split at h
            · cases h
            · rename_i nop hneg
              dsimp only at h
              have htime := time_none_of_not_isSome ht
              have hlt : src < ifJ.dest := by omega
              obtain ⟨hkw, d, hd, hld⟩ := jmpAt_cond' hif hkind htime
              subst hkw
              have hhead : ArmHead ss ⟨.if_, .bin nop a b, src, ifJ.dest⟩ := ⟨op, nop, a, b, d, hd, hld, hneg, rfl, rfl⟩
              -- the new block, when it is the last one of a chain without `else`
              have hlast : (∀ k, ke = some k → ifJ.dest = k) →
                  ∀ cb ∈ chain ++ [(⟨.if_, .bin nop a b, src, ifJ.dest⟩ : CondBlockInfo)], ArmFin ss ifJ.dest cb := by
                intro hke cb hcb
                rcases List.mem_append.mp hcb with hc | hc
                · obtain ⟨k, hk, hacc2⟩ := hacc cb hc
                  rw [hke k hk]; exact hacc2.fin
                · simp only [List.mem_singleton] at hc
                  subst hc
                  exact ⟨hlt, hhead, fun hne => absurd rfl hne⟩
              split at h
              · split at h
                · rename_i e
                  split at h
                  · cases h
                  · rename_i hne
                    cases h
                    refine ⟨by simp, hlast ?_⟩
                    intro k hk; cases hk
                    simpa using hne
                · cases h
                  exact ⟨by simp, hlast (fun k hk => by cases hk)⟩
              · rename_i u hu
                have hu' : jmpAt ss rc (ifJ.dest - 1) = some u := by
                  split at hu
                  · exact hu
                  · cases hu
                split at h
                · cases h
                · rename_i hrc
                  split at h
                  · cases h
                  · rename_i hut
                    split at h
                    · cases h
                    · rename_i hucond
                      split at h
                      · cases h
                      · split at h
                        · cases h
                        · rename_i hknown
                          have hkn : ∀ k, ke = some k → k = u.dest := by
                            intro k hk; subst hk
                            simpa using hknown
                          obtain ⟨dE, hdE, hldE⟩ := jmpAt_uncond hu' (by simpa using hucond) (time_none_of_not_isSome hut)
                          have hacc' : ∀ cb ∈ chain ++ [(⟨.if_, .bin nop a b, src, ifJ.dest⟩ : CondBlockInfo)],
                              ∃ k, some u.dest = some k ∧ ArmAcc2 ss k cb := by
                            intro cb hcb
                            rcases List.mem_append.mp hcb with hc | hc
                            · obtain ⟨k, hk, hacc2⟩ := hacc cb hc
                              exact ⟨u.dest, rfl, by rw [← hkn k hk]; exact hacc2⟩
                            · simp only [List.mem_singleton] at hc
                              subst hc
                              exact ⟨u.dest, rfl, hlt, hhead, dE, hdE, hldE⟩
                          split at h
                          · exact gatherGo_sem fuel _ _ _ info hacc' h
                          · split at h
                            · cases h
                            · cases h
                              refine ⟨by simp, ?_⟩
                              intro cb hcb
                              obtain ⟨k, hk, hacc2⟩ := hacc' cb hcb
                              cases hk
                              exact hacc2.fin

theorem gatherCondChain_sem {ss : Block} {rc : Nat → Nat} {ints : List Nat} {start : Nat} {info : ChainInfo}
    (h : gatherCondChain ss rc ints start = some info) :
    info.chain ≠ [] ∧ ∀ cb ∈ info.chain, ArmFin ss info.endLabel cb := by
  unfold gatherCondChain at h
  split at h
  · cases h
  · rename_i info' hg
    dsimp only at h
    have key := gatherGo_sem _ _ _ _ _ (by simp) hg
    split at h <;> split at h
    · cases h
    · cases h; exact key
    · cases h
    · cases h; exact key

/-- no chain starts at a statement that is not a jump -/
theorem gatherCondChain_none_of_not_jump {ss : Block} {rc : Nat → Nat} {ints : List Nat} {i : Nat}
    (h : jmpAt ss rc i = none) : gatherCondChain ss rc ints i = none := by
  unfold gatherCondChain
  have : gatherGo ss rc (ss.length + 1) i [] none = none := by
    unfold gatherGo; rw [h]
  rw [this]

end TruthModel.Decomp
