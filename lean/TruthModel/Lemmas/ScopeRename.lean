import TruthModel.Model.Scope
import TruthModel.Lemmas.ScopeIds
import TruthModel.Lemmas.Scope
/-
Helper lemmas for C10: the scoping specification is invariant under consistent renaming.
-/
namespace TruthModel.Scope

/-- `ρ` is injective on the names satisfying `P` (the declared names) and maps them outside `N`
(the names occurring in the program) -/
structure RenOK (ρ : Name → Name) (P N : Name → Prop) : Prop where
  inj : ∀ x y, P x → P y → ρ x = ρ y → x = y
  fresh : ∀ x, P x → ¬ N (ρ x)

/-- `e'` is `e` transported along `ρ` -/
structure MapRel {α} (ρ : Name → Name) (P : Name → Prop) (e e' : Name → Option α) : Prop where
  fwd : ∀ x, P x → e' (ρ x) = e x
  out : ∀ y, (∀ x, P x → y ≠ ρ x) → e' y = none
  dom : ∀ x, e x ≠ none → P x

def EnvRel (ρ : Name → Name) (P : Name → Prop) (env env' : Env) : Prop :=
  MapRel ρ P env.vars env'.vars ∧ MapRel ρ P env.funcs env'.funcs

def HereRel (ρ : Name → Name) (P : Name → Prop) (here here' : Name → Bool) : Prop :=
  ∀ x, P x → here' (ρ x) = here x

def SeenRel (ρ : Name → Name) (P : Name → Prop) (seen seen' : Ns → Name → Bool) : Prop :=
  ∀ ns x, P x → seen' ns (ρ x) = seen ns x

variable {ρ : Name → Name} {P N : Name → Prop}

theorem mapRel_update {α} (hr : RenOK ρ P N) {e e' : Name → Option α} (h : MapRel ρ P e e') (x : Name) (hx : P x) (v : α) :
    MapRel ρ P (update e x v) (update e' (ρ x) v) := by
  constructor
  · intro y hy
    simp only [update]
    by_cases hyx : y = x
    · subst hyx; simp
    · have : ρ y ≠ ρ x := fun e => hyx (hr.inj y x hy hx e)
      simp [hyx, this, h.fwd y hy]
  · intro y hy
    simp only [update]
    have : y ≠ ρ x := hy x hx
    simp [this, h.out y hy]
  · intro y hy
    simp only [update] at hy
    by_cases hyx : y = x
    · subst hyx; exact hx
    · simp only [hyx, if_false] at hy; exact h.dom y hy

theorem mapRel_map {α β} {e e' : Name → Option α} (h : MapRel ρ P e e') (f : α → β) :
    MapRel ρ P (fun n => (e n).map f) (fun n => (e' n).map f) := by
  constructor
  · intro x hx; simp only [h.fwd x hx]
  · intro y hy; simp only [h.out y hy, Option.map_none]
  · intro x hx
    apply h.dom x
    intro hn
    simp [hn] at hx

/-- what a (possibly renamed) use finds -/
theorem mapRel_use {α} (hr : RenOK ρ P N) {e e' : Name → Option α} (h : MapRel ρ P e e') (x : Name) (hx : N x) :
    e' (if (e x).isSome then ρ x else x) = e x := by
  cases hex : e x with
  | some v =>
    have hp : P x := h.dom x (by simp [hex])
    simp only [Option.isSome_some, if_true]
    rw [h.fwd x hp, hex]
  | none =>
    simp only [Option.isSome_none, Bool.false_eq_true, if_false]
    apply h.out
    intro y hy hxy
    exact hr.fresh y hy (hxy ▸ hx)

theorem envRel_hide {env env' : Env} (h : EnvRel ρ P env env') (ik : ItemKind) :
    EnvRel ρ P (env.hide ik) (env'.hide ik) :=
  ⟨mapRel_map h.1 (hideEntry ik), h.2⟩

theorem envRel_update (hr : RenOK ρ P N) {env env' : Env} (h : EnvRel ρ P env env') (x : Name) (hx : P x) (v : VEntry) :
    EnvRel ρ P { env with vars := update env.vars x v } { env' with vars := update env'.vars (ρ x) v } :=
  ⟨mapRel_update hr h.1 x hx v, h.2⟩

theorem hereRel_update (hr : RenOK ρ P N) {here here' : Name → Bool} (h : HereRel ρ P here here') (x : Name) (hx : P x) :
    HereRel ρ P (fun n => decide (n = x) || here n) (fun n => decide (n = ρ x) || here' n) := by
  intro y hy
  show (decide (ρ y = ρ x) || here' (ρ y)) = (decide (y = x) || here y)
  rw [h y hy]
  by_cases hyx : y = x
  · subst hyx; simp
  · have : ρ y ≠ ρ x := fun e => hyx (hr.inj y x hy hx e)
    simp [hyx, this]

theorem hereRel_false : HereRel ρ P (fun _ => false) (fun _ => false) := fun _ _ => rfl

/-! ### uses -/

theorem lookupVar_ne_dummy (g : Globals) (lang : Option Lang) (env : Env) (hc : EnvClean env) (n : Name) (e : VEntry)
    (he : env.vars n = some e) : lookupVar g lang env n ≠ .ok .enumDummy := by
  have := hc n e he
  unfold lookupVar
  rw [he]
  cases e with
  | loc k d => simpa [VEntry.clean] using this
  | item d => simpa [VEntry.clean] using this
  | blocked k ik => simp

theorem finishVar_name (g : Globals) (u u' : Use) (hid : u'.id = u.id) (hcol : u'.color = u.color)
    (r : Except ErrClass Def) (h : r = .ok .enumDummy → u'.name = u.name) :
    finishVar g u' r = finishVar g u r := by
  cases r with
  | error e => simp [finishVar, hid]
  | ok d =>
    cases d with
    | enumDummy =>
      have hn := h rfl
      simp only [finishVar, resolveUnqualifiedEnumConst, hid, hcol, hn]
    | decl id => simp [finishVar, hid]
    | regAlias l r => simp [finishVar, hid]
    | insAlias l r => simp [finishVar, hid]
    | enumConst e n => simp [finishVar, hid]
    | builtin n => simp [finishVar, hid]

theorem renUse_ns (env : Env) (u : Use) : (renUseScoped ρ env u).ns = u.ns := by
  unfold renUseScoped; split <;> split <;> rfl
theorem renUse_id (env : Env) (u : Use) : (renUseScoped ρ env u).id = u.id := by
  unfold renUseScoped; split <;> split <;> rfl
theorem renUse_color (env : Env) (u : Use) : (renUseScoped ρ env u).color = u.color := by
  unfold renUseScoped; split <;> split <;> rfl
theorem renUse_qual (env : Env) (u : Use) : (renUseScoped ρ env u).enumQual = u.enumQual := by
  unfold renUseScoped; split <;> split <;> rfl
theorem renUse_name_vars (env : Env) (u : Use) (h : u.ns = .vars) :
    (renUseScoped ρ env u).name = if (env.vars u.name).isSome then ρ u.name else u.name := by
  unfold renUseScoped; rw [h]; simp only []; split <;> rfl
theorem renUse_name_funcs (env : Env) (u : Use) (h : u.ns = .funcs) :
    (renUseScoped ρ env u).name = if (env.funcs u.name).isSome then ρ u.name else u.name := by
  unfold renUseScoped; rw [h]; simp only []; split <;> rfl

theorem finishFunc_id (u u' : Use) (hid : u'.id = u.id) (r : Except ErrClass Def) :
    finishFunc u' r = finishFunc u r := by
  cases r <;> simp [finishFunc, hid]

theorem specUseScoped_ren (hr : RenOK ρ P N) (g : Globals) (lang : Option Lang) {env env' : Env}
    (h : EnvRel ρ P env env') (hc : EnvClean env) (u : Use) (hn : N u.name) :
    specUseScoped g lang env' (renUseScoped ρ env u) = specUseScoped g lang env u := by
  unfold specUseScoped
  rw [renUse_ns]
  cases hns : u.ns with
  | vars =>
    simp only []
    rw [renUse_name_vars env u hns]
    have hv := mapRel_use hr h.1 u.name hn
    have hl : lookupVar g lang env' (if (env.vars u.name).isSome then ρ u.name else u.name) =
        lookupVar g lang env u.name := by
      unfold lookupVar; rw [hv]
      cases hex : env.vars u.name with
      | none => simp
      | some e => cases e <;> rfl
    rw [hl]
    apply finishVar_name g u _ (renUse_id env u) (renUse_color env u)
    intro hd
    rw [renUse_name_vars env u hns]
    cases hex : env.vars u.name with
    | some e => exact absurd hd (lookupVar_ne_dummy g lang env hc u.name e hex)
    | none => rfl
  | funcs =>
    simp only []
    rw [renUse_name_funcs env u hns]
    have hv := mapRel_use hr h.2 u.name hn
    have hl : lookupFunc g lang env' (if (env.funcs u.name).isSome then ρ u.name else u.name) =
        lookupFunc g lang env u.name := by
      unfold lookupFunc; rw [hv]
      cases hex : env.funcs u.name with
      | none => simp
      | some e => rfl
    rw [hl]
    exact finishFunc_id u _ (renUse_id env u) _

theorem specUse_ren (hr : RenOK ρ P N) (g : Globals) (lang : Option Lang) {env env' : Env}
    (h : EnvRel ρ P env env') (hc : EnvClean env) (u : Use) (hn : N u.name) :
    specUse g lang env' (renUse ρ env u) = specUse g lang env u := by
  unfold renUse
  cases hq : u.enumQual with
  | some e => simp only [specUse, hq]
  | none =>
    simp only []
    unfold specUse
    rw [renUse_qual, hq]
    exact specUseScoped_ren hr g lang h hc u hn

/-- renaming does not look at the expected enum -/
theorem renUse_withColor (env : Env) (u : Use) (c : Option Name) :
    { renUse ρ env u with color := c } = renUse ρ env { u with color := c } := by
  obtain ⟨id, ns, name, color, q⟩ := u
  cases q with
  | some e => rfl
  | none => cases ns <;> simp only [renUse, renUseScoped] <;> split <;> rfl

mutual
theorem skipExpr_ren (env : Env) : ∀ (e : Expr), skipExpr (renExpr ρ env e) = skipExpr e
  | .use u => by
    simp only [renExpr, skipExpr]
    unfold renUse
    cases hq : u.enumQual with
    | some e => rfl
    | none => simp only []; rw [renUse_id]
  | .group es => by simp only [renExpr, skipExpr]; exact skipExprs_ren env es
  | .call u args => by
    simp only [renExpr, skipExpr]
    rw [skipExprs_ren env args]
    congr 2
    unfold renUse
    cases hq : u.enumQual with
    | some e => rfl
    | none => simp only []; rw [renUse_id]
  | .raw op args => by simp only [renExpr, skipExpr]; exact skipExprs_ren env args
theorem skipExprs_ren (env : Env) : ∀ (es : List Expr), skipExprs (renExprs ρ env es) = skipExprs es
  | [] => by simp [renExprs, skipExprs]
  | e :: es => by simp only [renExprs, skipExprs]; rw [skipExpr_ren env e, skipExprs_ren env es]
end

/-- Walking a renamed expression in the renamed environment gives the same events: every name is
looked up to the same result, hence every callee has the same signature and the same arguments
are visited. -/
theorem walk_ren (hr : RenOK ρ P N) (g : Globals) (lang : Option Lang) {env env' : Env}
    (h : EnvRel ρ P env env') (hc : EnvClean env) :
    (∀ (e : Expr) (c : Option Name), (∀ x ∈ exprNames e, N x) →
      walkExpr g lang (specUse g lang env') c (renExpr ρ env e) = walkExpr g lang (specUse g lang env) c e) ∧
    (∀ (es : List Expr) (c : Option Name), (∀ x ∈ exprsNames es, N x) →
      walkExprs g lang (specUse g lang env') c (renExprs ρ env es) = walkExprs g lang (specUse g lang env) c es) ∧
    (∀ (es : List Expr) (c : Option Name) (sig : Option Sig), (∀ x ∈ exprsNames es, N x) →
      walkArgs g lang (specUse g lang env') c sig (renExprs ρ env es) =
        walkArgs g lang (specUse g lang env) c sig es) := by
  have look : ∀ (u : Use) (c : Option Name), N u.name →
      specUse g lang env' { renUse ρ env u with color := c } = specUse g lang env { u with color := c } := by
    intro u c hn
    rw [renUse_withColor]
    exact specUse_ren hr g lang h hc { u with color := c } hn
  have key : ∀ n : Nat,
      (∀ (e : Expr), sizeOf e < n → ∀ c, (∀ x ∈ exprNames e, N x) →
        walkExpr g lang (specUse g lang env') c (renExpr ρ env e) = walkExpr g lang (specUse g lang env) c e) ∧
      (∀ (es : List Expr), sizeOf es < n → ∀ c, (∀ x ∈ exprsNames es, N x) →
        walkExprs g lang (specUse g lang env') c (renExprs ρ env es) = walkExprs g lang (specUse g lang env) c es) ∧
      (∀ (es : List Expr), sizeOf es < n → ∀ c sig, (∀ x ∈ exprsNames es, N x) →
        walkArgs g lang (specUse g lang env') c sig (renExprs ρ env es) =
          walkArgs g lang (specUse g lang env) c sig es) := by
    intro n
    induction n with
    | zero => exact ⟨fun _ h => absurd h (Nat.not_lt_zero _), fun _ h => absurd h (Nat.not_lt_zero _),
        fun _ h => absurd h (Nat.not_lt_zero _)⟩
    | succ n ih =>
      obtain ⟨ih1, ih2, ih3⟩ := ih
      refine ⟨?_, ?_, ?_⟩
      · intro e he c hn
        cases e with
        | use u =>
          simp only [renExpr, walkExpr]
          rw [look u c (hn _ (by simp [exprNames]))]
        | group es =>
          simp only [renExpr, walkExpr]
          exact ih2 es (by simp at he; omega) c (fun x hx => hn x (by simpa [exprNames] using hx))
        | call u args =>
          simp only [renExpr, walkExpr]
          rw [look u c (hn _ (by simp [exprNames]))]
          rw [ih3 args (by simp at he; omega) c _ (fun x hx => hn x (by simp [exprNames, hx]))]
        | raw op args =>
          simp only [renExpr, walkExpr]
          exact ih3 args (by simp at he; omega) c _ (fun x hx => hn x (by simpa [exprNames] using hx))
      · intro es he c hn
        cases es with
        | nil => simp [renExprs, walkExprs]
        | cons e es =>
          simp only [renExprs, walkExprs]
          rw [ih1 e (by simp at he; omega) c (fun x hx => hn x (by simp [exprsNames, hx])),
            ih2 es (by simp at he; omega) c (fun x hx => hn x (by simp [exprsNames, hx]))]
      · intro es he c sig hn
        cases es with
        | nil => cases sig <;> simp [renExprs, walkArgs]
        | cons e es =>
          have h1 := ih1 e (by simp at he; omega)
          have h3 := ih3 es (by simp at he; omega)
          have hne : ∀ x ∈ exprNames e, N x := fun x hx => hn x (by simp [exprsNames, hx])
          have hns : ∀ x ∈ exprsNames es, N x := fun x hx => hn x (by simp [exprsNames, hx])
          cases sig with
          | none =>
            simp only [renExprs, walkArgs]
            rw [h1 c hne, h3 c none hns]
          | some ps =>
            cases ps with
            | nil =>
              simp only [renExprs, walkArgs]
              rw [skipExpr_ren env e, h3 c (some []) hns]
            | cons pc ps =>
              simp only [renExprs, walkArgs]
              rw [h1 pc hne, h3 c (some ps) hns]
  exact ⟨fun e c => (key (sizeOf e + 1)).1 e (Nat.lt_succ_self _) c,
    fun es c => (key (sizeOf es + 1)).2.1 es (Nat.lt_succ_self _) c,
    fun es c sig => (key (sizeOf es + 1)).2.2 es (Nat.lt_succ_self _) c sig⟩

theorem specUses_ren (hr : RenOK ρ P N) (g : Globals) (lang : Option Lang) {env env' : Env}
    (h : EnvRel ρ P env env') (hc : EnvClean env) (c : Option Name) (es : List Expr)
    (hn : ∀ x ∈ usesNames es, N x) :
    walkExprs g lang (specUse g lang env') c (renExprs ρ env es) = walkExprs g lang (specUse g lang env) c es :=
  (walk_ren hr g lang h hc).2.1 es c hn

/-! ### declaration lists -/

def renDecl (ρ : Name → Name) (d : Ns × Nat × Name) : Ns × Nat × Name := (d.1, d.2.1, ρ d.2.2)

theorem lastDecl_dom : ∀ (ds : List (Ns × Nat × Name)) (ns : Ns) (x : Name), lastDecl ds ns x ≠ none →
    ∃ d ∈ ds, d.2.2 = x := by
  intro ds
  induction ds with
  | nil => intro ns x h; simp [lastDecl] at h
  | cons d ds ih =>
    intro ns x h
    simp only [lastDecl] at h
    cases hl : lastDecl ds ns x with
    | some id =>
      obtain ⟨d', hd', hx⟩ := ih ns x (by simp [hl])
      exact ⟨d', by simp [hd'], hx⟩
    | none =>
      simp only [hl] at h
      by_cases hc : d.1 = ns ∧ d.2.2 = x
      · exact ⟨d, by simp, hc.2⟩
      · simp [hc] at h

theorem lastDecl_ren_fwd (hr : RenOK ρ P N) : ∀ (ds : List (Ns × Nat × Name)) (ns : Ns) (x : Name),
    (∀ d ∈ ds, P d.2.2) → P x → lastDecl (ds.map (renDecl ρ)) ns (ρ x) = lastDecl ds ns x := by
  intro ds
  induction ds with
  | nil => intro ns x _ _; rfl
  | cons d ds ih =>
    intro ns x hd hx
    simp only [List.map_cons, lastDecl]
    rw [ih ns x (fun d' h' => hd d' (by simp [h'])) hx]
    cases lastDecl ds ns x with
    | some id => rfl
    | none =>
      simp only [renDecl]
      have hpd : P d.2.2 := hd d (by simp)
      by_cases hdx : d.2.2 = x
      · subst hdx; simp
      · have : ρ d.2.2 ≠ ρ x := fun e => hdx (hr.inj _ _ hpd hx e)
        simp [hdx, this]

theorem lastDecl_ren_out : ∀ (ds : List (Ns × Nat × Name)) (ns : Ns) (y : Name),
    (∀ d ∈ ds, P d.2.2) → (∀ x, P x → y ≠ ρ x) → lastDecl (ds.map (renDecl ρ)) ns y = none := by
  intro ds
  induction ds with
  | nil => intro ns y _ _; rfl
  | cons d ds ih =>
    intro ns y hd hy
    simp only [List.map_cons, lastDecl]
    rw [ih ns y (fun d' h' => hd d' (by simp [h'])) hy]
    have : ρ d.2.2 ≠ y := fun e => hy d.2.2 (hd d (by simp)) e.symm
    simp [renDecl, this]

theorem envRel_withItems (hr : RenOK ρ P N) {env env' : Env} (h : EnvRel ρ P env env')
    (ds : List (Ns × Nat × Name)) (hd : ∀ d ∈ ds, P d.2.2) :
    EnvRel ρ P (env.withItems ds) (env'.withItems (ds.map (renDecl ρ))) := by
  constructor
  · constructor
    · intro x hx
      simp only [Env.withItems]
      rw [lastDecl_ren_fwd hr ds .vars x hd hx, h.1.fwd x hx]
    · intro y hy
      simp only [Env.withItems]
      rw [lastDecl_ren_out ds .vars y hd hy, h.1.out y hy]
    · intro x hx
      simp only [Env.withItems] at hx
      cases hl : lastDecl ds .vars x with
      | some id =>
        obtain ⟨d, hdm, hdx⟩ := lastDecl_dom ds .vars x (by simp [hl])
        exact hdx ▸ hd d hdm
      | none => simp only [hl] at hx; exact h.1.dom x hx
  · constructor
    · intro x hx
      simp only [Env.withItems]
      rw [lastDecl_ren_fwd hr ds .funcs x hd hx, h.2.fwd x hx]
    · intro y hy
      simp only [Env.withItems]
      rw [lastDecl_ren_out ds .funcs y hd hy, h.2.out y hy]
    · intro x hx
      simp only [Env.withItems] at hx
      cases hl : lastDecl ds .funcs x with
      | some id =>
        obtain ⟨d, hdm, hdx⟩ := lastDecl_dom ds .funcs x (by simp [hl])
        exact hdx ▸ hd d hdm
      | none => simp only [hl] at hx; exact h.2.dom x hx

theorem declEvents_ren (hr : RenOK ρ P N) (noun : Ns → Noun) : ∀ (ds : List (Ns × Nat × Name))
    (seen seen' : Ns → Name → Bool), SeenRel ρ P seen seen' → (∀ d ∈ ds, P d.2.2) →
    declEvents noun seen' (ds.map (renDecl ρ)) = declEvents noun seen ds := by
  intro ds
  induction ds with
  | nil => intro _ _ _ _; rfl
  | cons d ds ih =>
    intro seen seen' hs hd
    obtain ⟨ns, id, n⟩ := d
    have hpn : P n := hd (ns, id, n) (by simp)
    simp only [List.map_cons, renDecl, declEvents]
    rw [hs ns n hpn]
    congr 1
    refine ih _ _ ?_ (fun d' h' => hd d' (by simp [h']))
    intro ns' x hx
    show (decide (ns' = ns ∧ ρ x = ρ n) || seen' ns' (ρ x)) = (decide (ns' = ns ∧ x = n) || seen ns' x)
    rw [hs ns' x hx]
    by_cases hxn : x = n
    · subst hxn; simp
    · have : ρ x ≠ ρ n := fun e => hxn (hr.inj _ _ hx hpn e)
      simp [hxn, this]

theorem seenRel_false : SeenRel ρ P (fun _ _ => false) (fun _ _ => false) := fun _ _ _ => rfl

/-! ### parameters and local declarations -/

def renParam (ρ : Name → Name) (p : Nat × Name) : Nat × Name := (p.1, ρ p.2)

theorem specParams_env : ∀ (ps : List (Nat × Name)) (env : Env) (here : Name → Bool),
    (specParams env here ps).1 = paramEnv env ps := by
  intro ps
  induction ps with
  | nil => intro env here; rfl
  | cons p ps ih => intro env here; simp only [specParams, paramEnv]; exact ih _ _

theorem specParams_ren (hr : RenOK ρ P N) : ∀ (ps : List (Nat × Name)) (env env' : Env) (here here' : Name → Bool),
    EnvRel ρ P env env' → HereRel ρ P here here' → (∀ p ∈ ps, P p.2) →
    (specParams env' here' (ps.map (renParam ρ))).2 = (specParams env here ps).2 ∧
      EnvRel ρ P (specParams env here ps).1 (specParams env' here' (ps.map (renParam ρ))).1 := by
  intro ps
  induction ps with
  | nil => intro env env' here here' he _ _; exact ⟨rfl, he⟩
  | cons p ps ih =>
    intro env env' here here' he hh hp
    have hpp : P p.2 := hp p (by simp)
    obtain ⟨h1, h2⟩ := ih _ _ _ _ (envRel_update hr he p.2 hpp (.loc .param (.decl p.1)))
      (hereRel_update hr hh p.2 hpp) (fun q hq => hp q (by simp [hq]))
    simp only [List.map_cons, specParams, renParam] at *
    rw [h1, hh p.2 hpp]
    exact ⟨rfl, h2⟩

theorem specDeclVars_env (g : Globals) (lang : Option Lang) : ∀ (vars : List DeclVar) (env : Env) (here : Name → Bool),
    (specDeclVars g lang env here vars).1.1 = declEnv env vars := by
  intro vars
  induction vars with
  | nil => intro env here; rfl
  | cons v vs ih => intro env here; simp only [specDeclVars, declEnv]; exact ih _ _

theorem specDeclVars_ren (hr : RenOK ρ P N) (g : Globals) (lang : Option Lang) :
    ∀ (vars : List DeclVar) (env env' : Env) (here here' : Name → Bool),
    EnvRel ρ P env env' → HereRel ρ P here here' → EnvClean env →
    (∀ v ∈ vars, P v.name ∧ ∀ x ∈ usesNames v.init, N x) →
    (specDeclVars g lang env' here' (renDeclVars ρ env vars)).2 = (specDeclVars g lang env here vars).2 ∧
      EnvRel ρ P (specDeclVars g lang env here vars).1.1 (specDeclVars g lang env' here' (renDeclVars ρ env vars)).1.1 ∧
      HereRel ρ P (specDeclVars g lang env here vars).1.2 (specDeclVars g lang env' here' (renDeclVars ρ env vars)).1.2 := by
  intro vars
  induction vars with
  | nil => intro env env' here here' he hh _ _; exact ⟨rfl, he, hh⟩
  | cons v vs ih =>
    intro env env' here here' he hh hc hv
    obtain ⟨hpv, hnv⟩ := hv v (by simp)
    obtain ⟨h1, h2, h3⟩ := ih _ _ _ _ (envRel_update hr he v.name hpv (.loc .local (.decl v.id)))
      (hereRel_update hr hh v.name hpv) (envClean_update env hc v.name .local v.id)
      (fun w hw => hv w (by simp [hw]))
    simp only [renDeclVars, specDeclVars] at *
    rw [h1, hh v.name hpv, specUses_ren hr g lang he hc none v.init hnv]
    exact ⟨rfl, h2, h3⟩

/-! ### statements -/

theorem itemDecls_ren : ∀ (ss : List Stmt) (env : Env),
    itemDecls (renStmts ρ env ss) = (itemDecls ss).map (renDecl ρ) := by
  intro ss
  induction ss with
  | nil => intro env; simp [renStmts, itemDecls]
  | cons s ss ih =>
    intro env
    cases s with
    | expr us => simp only [renStmts, renStmt, itemDecls]; exact ih _
    | decl vars => simp only [renStmts, renStmt, itemDecls]; exact ih _
    | block b => simp only [renStmts, renStmt, itemDecls]; exact ih _
    | script b => simp only [renStmts, renStmt, itemDecls]; exact ih _
    | func id name qual params body =>
      simp only [renStmts, renStmt, itemDecls, List.map_cons, renDecl]; rw [ih]
    | funcDecl id name qual params =>
      simp only [renStmts, renStmt, itemDecls, List.map_cons, renDecl]; rw [ih]
    | const vars =>
      simp only [renStmts, renStmt, itemDecls, List.map_append, renConstVars, List.map_map]
      rw [ih]
      rfl

theorem itemDecls_names : ∀ (ss : List Stmt) (d : Ns × Nat × Name), d ∈ itemDecls ss → d.2.2 ∈ stmtsDeclNames ss := by
  intro ss
  induction ss with
  | nil => intro d h; simp [itemDecls] at h
  | cons s ss ih =>
    intro d h
    cases s with
    | expr us => simp only [itemDecls, stmtsDeclNames, stmtDeclNames, List.nil_append] at *; exact ih d h
    | decl vars =>
      simp only [itemDecls, stmtsDeclNames, List.mem_append] at *; exact Or.inr (ih d h)
    | block b =>
      simp only [itemDecls, stmtsDeclNames, List.mem_append] at *; exact Or.inr (ih d h)
    | script b =>
      simp only [itemDecls, stmtsDeclNames, List.mem_append] at *; exact Or.inr (ih d h)
    | func id name qual params body =>
      simp only [itemDecls, stmtsDeclNames, stmtDeclNames, List.mem_cons, List.mem_append, List.cons_append] at *
      rcases h with h | h
      · subst h; exact Or.inl rfl
      · exact Or.inr (Or.inr (ih d h))
    | funcDecl id name qual params =>
      simp only [itemDecls, stmtsDeclNames, stmtDeclNames, List.mem_cons, List.cons_append,
        List.nil_append] at *
      rcases h with h | h
      · subst h; exact Or.inl rfl
      · exact Or.inr (ih d h)
    | const vars =>
      simp only [itemDecls, stmtsDeclNames, stmtDeclNames, List.mem_append, List.mem_map] at *
      rcases h with ⟨v, hv, hd⟩ | h
      · subst hd; exact Or.inl ⟨v, hv, rfl⟩
      · exact Or.inr (ih d h)

variable (ρ P N)

def RenStmtsOK (g : Globals) (ss : List Stmt) : Prop :=
  ∀ (lang : Option Lang) (env env' : Env) (here here' : Name → Bool),
    EnvRel ρ P env env' → HereRel ρ P here here' → EnvClean env →
    (∀ x ∈ stmtsNames ss, N x) → (∀ x ∈ stmtsDeclNames ss, P x) →
    specStmts g lang env' here' (renStmts ρ env ss) = specStmts g lang env here ss

def RenStmtOK (g : Globals) (s : Stmt) : Prop :=
  ∀ (lang : Option Lang) (env env' : Env) (here here' : Name → Bool),
    EnvRel ρ P env env' → HereRel ρ P here here' → EnvClean env →
    (∀ x ∈ stmtNames s, N x) → (∀ x ∈ stmtDeclNames s, P x) →
    (specStmt g lang env' here' (renStmt ρ env s)).2 = (specStmt g lang env here s).2 ∧
      EnvRel ρ P (specStmt g lang env here s).1.1 (specStmt g lang env' here' (renStmt ρ env s)).1.1 ∧
      HereRel ρ P (specStmt g lang env here s).1.2 (specStmt g lang env' here' (renStmt ρ env s)).1.2 ∧
      (specStmt g lang env here s).1.1 = envAfter env s

variable {ρ P N}

theorem specBlock_ren (hr : RenOK ρ P N) (g : Globals) (b : List Stmt) (h : RenStmtsOK ρ P N g b)
    (lang : Option Lang) {env env' : Env} (he : EnvRel ρ P env env') (hc : EnvClean env)
    (hn : ∀ x ∈ stmtsNames b, N x) (hp : ∀ x ∈ stmtsDeclNames b, P x) :
    specBlock g lang env' (renStmts ρ (env.withItems (itemDecls b)) b) = specBlock g lang env b := by
  unfold specBlock
  have hd : ∀ d ∈ itemDecls b, P d.2.2 := fun d hd => hp _ (itemDecls_names b d hd)
  rw [itemDecls_ren, declEvents_ren hr itemNoun _ _ _ seenRel_false hd]
  rw [h lang _ _ _ _ (envRel_withItems hr he _ hd) hereRel_false (envClean_withItems env hc _) hn hp]

theorem renConst_events (hr : RenOK ρ P N) (g : Globals) {env env' : Env} (he : EnvRel ρ P env env')
    (hc : EnvClean env) : ∀ (vars : List DeclVar), (∀ v ∈ vars, ∀ x ∈ usesNames v.init, N x) →
    ((renConstVars ρ env vars).flatMap fun v => walkExprs g none (specUse g none env') none v.init) =
      vars.flatMap fun v => walkExprs g none (specUse g none env) none v.init := by
  intro vars
  induction vars with
  | nil => intro _; rfl
  | cons v vs ih =>
    intro hn
    simp only [renConstVars, List.map_cons, List.flatMap_cons] at *
    rw [ih (fun w hw => hn w (by simp [hw])), specUses_ren hr g none he hc none v.init (hn v (by simp))]

mutual
theorem renStmt_ok (hr : RenOK ρ P N) (g : Globals) : ∀ (s : Stmt), RenStmtOK ρ P N g s
  | .expr us => by
    intro lang env env' here here' he hh hc hn hp
    simp only [renStmt, specStmt, envAfter]
    refine ⟨specUses_ren hr g lang he hc none us (by simpa [stmtNames] using hn), he, hh, trivial⟩
  | .decl vars => by
    intro lang env env' here here' he hh hc hn hp
    have hv : ∀ v ∈ vars, P v.name ∧ ∀ x ∈ usesNames v.init, N x := by
      intro v hv
      constructor
      · apply hp; simp only [stmtDeclNames, List.mem_map]; exact ⟨v, hv, rfl⟩
      · intro x hx; apply hn; simp only [stmtNames, List.mem_flatMap]; exact ⟨v, hv, by simp [hx]⟩
    obtain ⟨h1, h2, h3⟩ := specDeclVars_ren hr g lang vars env env' here here' he hh hc hv
    simp only [renStmt, specStmt, envAfter]
    exact ⟨h1, h2, h3, specDeclVars_env g lang vars env here⟩
  | .block b => by
    intro lang env env' here here' he hh hc hn hp
    simp only [renStmt, specStmt, envAfter, ← specBlock_def]
    refine ⟨specBlock_ren hr g b (renStmts_ok hr g b) lang he hc (by simpa [stmtNames] using hn)
      (by simpa [stmtDeclNames] using hp), he, hh, trivial⟩
  | .script b => by
    intro lang env env' here here' he hh hc hn hp
    simp only [renStmt, specStmt, envAfter, ← specBlock_def]
    refine ⟨specBlock_ren hr g b (renStmts_ok hr g b) _ he hc (by simpa [stmtNames] using hn)
      (by simpa [stmtDeclNames] using hp), he, hh, trivial⟩
  | .const vars => by
    intro lang env env' here here' he hh hc hn hp
    simp only [renStmt, specStmt, envAfter]
    refine ⟨renConst_events hr g (envRel_hide he .const) (envClean_hide env hc .const) vars ?_, he, hh, trivial⟩
    intro v hv x hx
    apply hn; simp only [stmtNames, List.mem_flatMap]; exact ⟨v, hv, by simp [hx]⟩
  | .func id name qual params body => by
    intro lang env env' here here' he hh hc hn hp
    have hpp : ∀ p ∈ params, P p.2 := by
      intro p hpm; apply hp
      simp only [stmtDeclNames, List.mem_cons, List.mem_append, List.mem_map]
      exact Or.inr (Or.inl ⟨p, hpm, rfl⟩)
    obtain ⟨h1, h2⟩ := specParams_ren hr params _ _ _ _ (envRel_hide he .function) hereRel_false hpp
    have hcl := (specParams_key params (env.hide .function) (fun _ => false) (envClean_hide env hc _)).2
    have hnb : ∀ x ∈ stmtsNames body, N x := by
      intro x hx; apply hn; simp only [stmtNames, List.mem_cons, List.mem_append]; exact Or.inr (Or.inr hx)
    have hpb : ∀ x ∈ stmtsDeclNames body, P x := by
      intro x hx; apply hp; simp only [stmtDeclNames, List.mem_cons, List.mem_append]; exact Or.inr (Or.inr hx)
    simp only [renStmt, specStmt, envAfter, ← specBlock_def]
    refine ⟨?_, he, hh, trivial⟩
    rw [show (params.map fun p => (p.1, ρ p.2)) = params.map (renParam ρ) from rfl, h1]
    rw [← specParams_env params (env.hide .function) (fun _ => false)]
    rw [specBlock_ren hr g body (renStmts_ok hr g body) _ h2 hcl hnb hpb]
  | .funcDecl id name qual params => by
    intro lang env env' here here' he hh hc hn hp
    simp only [renStmt, specStmt, envAfter]
    exact ⟨trivial, he, hh, trivial⟩
theorem renStmts_ok (hr : RenOK ρ P N) (g : Globals) : ∀ (ss : List Stmt), RenStmtsOK ρ P N g ss
  | [] => by intro lang env env' here here' _ _ _ _ _; simp [renStmts, specStmts]
  | s :: ss => by
    intro lang env env' here here' he hh hc hn hp
    have hns : ∀ x ∈ stmtNames s, N x := fun x hx => hn x (by simp [stmtsNames, hx])
    have hps : ∀ x ∈ stmtDeclNames s, P x := fun x hx => hp x (by simp [stmtsDeclNames, hx])
    obtain ⟨h1, h2, h3, h4⟩ := renStmt_ok hr g s lang env env' here here' he hh hc hns hps
    have hc' := (specStmt_key g s lang env here hc).2
    have h5 := renStmts_ok hr g ss lang _ _ _ _ h2 h3 hc'
      (fun x hx => hn x (by simp [stmtsNames, hx])) (fun x hx => hp x (by simp [stmtsDeclNames, hx]))
    simp only [renStmts, specStmts]
    rw [h1, ← h4, h5]
end

mutual
theorem stmtFuncSigs_ren : ∀ (s : Stmt) (env : Env), stmtFuncSigs (renStmt ρ env s) = stmtFuncSigs s
  | .expr es, env => by simp [renStmt, stmtFuncSigs]
  | .decl vars, env => by simp [renStmt, stmtFuncSigs]
  | .block b, env => by simp only [renStmt, stmtFuncSigs]; exact stmtsFuncSigs_ren b _
  | .script b, env => by simp only [renStmt, stmtFuncSigs]; exact stmtsFuncSigs_ren b _
  | .const vars, env => by simp [renStmt, stmtFuncSigs]
  | .funcDecl id name qual params, env => by simp [renStmt, stmtFuncSigs]
  | .func id name qual params body, env => by
    simp only [renStmt, stmtFuncSigs, List.length_map]
    rw [stmtsFuncSigs_ren body _]
theorem stmtsFuncSigs_ren : ∀ (ss : List Stmt) (env : Env), stmtsFuncSigs (renStmts ρ env ss) = stmtsFuncSigs ss
  | [], env => by simp [renStmts, stmtsFuncSigs]
  | s :: ss, env => by
    simp only [renStmts, stmtsFuncSigs]
    rw [stmtFuncSigs_ren s env, stmtsFuncSigs_ren ss _]
end

theorem renStmts_isDecl : ∀ (ss : List Stmt) (env : Env), (∀ s ∈ ss, s.isDecl = false) →
    ∀ s ∈ renStmts ρ env ss, s.isDecl = false := by
  intro ss
  induction ss with
  | nil => intro env _ s hs; simp [renStmts] at hs
  | cons t ts ih =>
    intro env h s hs
    simp only [renStmts, List.mem_cons] at hs
    rcases hs with hs | hs
    · subst hs
      have := h t (by simp)
      cases t <;> simp_all [renStmt, Stmt.isDecl]
    · exact ih _ (fun x hx => h x (by simp [hx])) s hs

end TruthModel.Scope
