/-
Helper lemmas for C07 (`Props/C07.lean`): how each pass of `Decomp.postprocess` acts on the three
observations of a tree - its leaves (`atomsL`), its label mentions (`refsL`) and its label
definitions (`labelsL`).
-/
import TruthModel.Model.Decomp
namespace TruthModel.Decomp
open List

/-! ### observations and append -/

@[simp] theorem atomsL_nil : atomsL [] = [] := by simp [atomsL]
@[simp] theorem refsL_nil : refsL [] = [] := by simp [refsL]
@[simp] theorem labelsL_nil : labelsL [] = [] := by simp [labelsL]
@[simp] theorem atomsL_cons (s : Stmt) (ss : List Stmt) : atomsL (s :: ss) = s.atoms ++ atomsL ss := by simp [atomsL]
@[simp] theorem refsL_cons (s : Stmt) (ss : List Stmt) : refsL (s :: ss) = s.refs ++ refsL ss := by simp [refsL]
@[simp] theorem labelsL_cons (s : Stmt) (ss : List Stmt) : labelsL (s :: ss) = s.labels ++ labelsL ss := by simp [labelsL]
@[simp] theorem atoms_node (k : Kind) (b : List Stmt) : (Stmt.node k b).atoms = atomsL b := by simp [Stmt.atoms]
@[simp] theorem refs_node (k : Kind) (b : List Stmt) : (Stmt.node k b).refs = k.refs ++ refsL b := by simp [Stmt.refs]
@[simp] theorem labels_node (k : Kind) (b : List Stmt) : (Stmt.node k b).labels = labelsL b := by simp [Stmt.labels]
@[simp] theorem atoms_atom (d : Option String) (a : Atom) : (Stmt.atom d a).atoms = [(d, a)] := by simp [Stmt.atoms]
@[simp] theorem refs_atom (d : Option String) (a : Atom) : (Stmt.atom d a).refs = a.refs := by simp [Stmt.refs]

@[simp] theorem atomsL_append (a b : List Stmt) : atomsL (a ++ b) = atomsL a ++ atomsL b := by
  induction a with
  | nil => simp
  | cons s ss ih => simp [ih]

@[simp] theorem refsL_append (a b : List Stmt) : refsL (a ++ b) = refsL a ++ refsL b := by
  induction a with
  | nil => simp
  | cons s ss ih => simp [ih]

@[simp] theorem labelsL_append (a b : List Stmt) : labelsL (a ++ b) = labelsL a ++ labelsL b := by
  induction a with
  | nil => simp
  | cons s ss ih => simp [ih]

theorem fm_cons {α β} (f : α → Option β) (x : α) (xs : List α) :
    filterMap f (x :: xs) = (f x).toList ++ filterMap f xs := by
  cases h : f x <;> simp [List.filterMap_cons, h]

/-- Observations of the leaves that cannot see what loop and cond-chain reconstruction is allowed to
consume: label definitions, and untagged gotos / conditional gotos without an explicit time. -/
structure Good0 {β : Type} (f : Option String × Atom → Option β) : Prop where
  label : ∀ d l, f (d, .label l) = none
  jump : ∀ l, f (none, .jump (.goto l none)) = none
  condJump : ∀ c l, f (none, .condJump .if_ c (.goto l none)) = none

/-- ... and that in addition cannot see the destination of any goto without an explicit time (it may
become `break`). -/
structure Good {β : Type} (f : Option String × Atom → Option β) : Prop extends Good0 f where
  brkJump : ∀ d l, f (d, .jump (.goto l none)) = f (d, .jump .brk)
  brkCond : ∀ d kw c l, f (d, .condJump kw c (.goto l none)) = f (d, .condJump kw c .brk)

/-! ### `decompile_break` -/

theorem convJump_cases (m : List (Nat × Nat)) (cur : Option Nat) (j : Jump) :
    convJump m cur j = j ∨ (∃ d, j = .goto d none ∧ convJump m cur j = .brk) := by
  unfold convJump
  split
  · split
    · split
      · split
        · right; exact ⟨_, rfl, rfl⟩
        · left; rfl
      · left; rfl
    · left; rfl
  · left; rfl

theorem good_convAtom {β} {f : Option String × Atom → Option β} (hf : Good f) (m cur d a) :
    f (d, convAtom m cur a) = f (d, a) := by
  cases a <;> simp only [convAtom]
  case jump j =>
    rcases convJump_cases m cur j with h | ⟨l, h1, h2⟩
    · rw [h]
    · rw [h2, h1, hf.brkJump]
  case condJump kw c j =>
    rcases convJump_cases m cur j with h | ⟨l, h1, h2⟩
    · rw [h]
    · rw [h2, h1, hf.brkCond]

mutual
theorem breakS_filterMap {β} (f : Option String × Atom → Option β) (hf : Good f) (m cur) :
    ∀ s, (breakS m cur s).atoms.filterMap f = s.atoms.filterMap f
  | .atom d a => by simp [breakS, fm_cons, good_convAtom hf]
  | .node k b => by simp [breakS, breakL_filterMap f hf m _ b]
theorem breakL_filterMap {β} (f : Option String × Atom → Option β) (hf : Good f) (m cur) :
    ∀ ss, (atomsL (breakL m cur ss)).filterMap f = (atomsL ss).filterMap f
  | [] => by simp [breakL]
  | s :: ss => by
    simp [breakL, List.filterMap_append, breakS_filterMap f hf m cur s, breakL_filterMap f hf m cur ss]
end

theorem convAtom_label (m cur) (a : Atom) (l : Nat) : convAtom m cur a = .label l ↔ a = .label l := by
  cases a <;> simp [convAtom]

mutual
theorem breakS_labels (m cur) : ∀ s, (breakS m cur s).labels = s.labels
  | .atom d a => by
    cases a <;> simp [breakS, convAtom, Stmt.labels]
  | .node k b => by simp [breakS, breakL_labels m _ b]
theorem breakL_labels (m cur) : ∀ ss, labelsL (breakL m cur ss) = labelsL ss
  | [] => by simp [breakL]
  | s :: ss => by simp [breakL, breakS_labels m cur s, breakL_labels m cur ss]
end

theorem convJump_refs (m cur j) : (convJump m cur j).refs <+ j.refs := by
  rcases convJump_cases m cur j with h | ⟨l, h1, h2⟩
  · rw [h]; exact Sublist.refl _
  · rw [h2]; simp [Jump.refs]

theorem convAtom_refs (m cur a) : (convAtom m cur a).refs <+ a.refs := by
  cases a <;> simp only [convAtom, Atom.refs, Sublist.refl]
  · exact convJump_refs m cur _
  · exact Sublist.append (Sublist.refl _) (convJump_refs m cur _)

mutual
theorem breakS_refs (m cur) : ∀ s, (breakS m cur s).refs <+ s.refs
  | .atom d a => by simpa [breakS] using convAtom_refs m cur a
  | .node k b => by
    simp only [breakS, refs_node]
    exact Sublist.append (Sublist.refl _) (breakL_refs m _ b)
theorem breakL_refs (m cur) : ∀ ss, refsL (breakL m cur ss) <+ refsL ss
  | [] => by simp [breakL]
  | s :: ss => by
    simp only [breakL, refsL_cons]
    exact Sublist.append (breakS_refs m cur s) (breakL_refs m cur ss)
end

/-! ### `unused_labels::run` -/

mutual
theorem unusedS_filterMap {β} (f : Option String × Atom → Option β) (hf : Good0 f) (rc) :
    ∀ s, (unusedS rc s).atoms.filterMap f = s.atoms.filterMap f
  | .atom d a => by simp [unusedS]
  | .node k b => by simp [unusedS, unusedL_filterMap f hf rc b]
theorem unusedL_filterMap {β} (f : Option String × Atom → Option β) (hf : Good0 f) (rc) :
    ∀ ss, (atomsL (unusedL rc ss)).filterMap f = (atomsL ss).filterMap f
  | [] => by simp [unusedL]
  | .atom d a :: ss => by
    cases a <;> simp [unusedL, unusedS, fm_cons, unusedL_filterMap f hf rc ss]
    split <;> simp [fm_cons, hf.label, unusedL_filterMap f hf rc ss]
  | .node k b :: ss => by
    simp [unusedL, List.filterMap_append, unusedS_filterMap f hf rc (.node k b), unusedL_filterMap f hf rc ss]
end

mutual
theorem unusedS_refs (rc) : ∀ s, (unusedS rc s).refs = s.refs
  | .atom d a => by simp [unusedS]
  | .node k b => by simp [unusedS, unusedL_refs rc b]
theorem unusedL_refs (rc) : ∀ ss, refsL (unusedL rc ss) = refsL ss
  | [] => by simp [unusedL]
  | .atom d a :: ss => by
    cases a <;> simp [unusedL, unusedS, unusedL_refs rc ss]
    split <;> simp [Atom.refs, unusedL_refs rc ss]
  | .node k b :: ss => by
    simp [unusedL, unusedS_refs rc (.node k b), unusedL_refs rc ss]
end

mutual
theorem unusedS_labels (rc : Nat → Nat) (l : Nat) (h : rc l > 0) : ∀ s,
    (unusedS rc s).labels.count l = s.labels.count l
  | .atom d a => by simp [unusedS]
  | .node k b => by simp [unusedS, unusedL_labels rc l h b]
theorem unusedL_labels (rc : Nat → Nat) (l : Nat) (h : rc l > 0) : ∀ ss,
    (labelsL (unusedL rc ss)).count l = (labelsL ss).count l
  | [] => by simp [unusedL]
  | .atom d a :: ss => by
    have ih := unusedL_labels rc l h ss
    cases a
    case label l' =>
      simp only [unusedL]
      split
      · simp [Stmt.labels, List.count_cons, ih]
      · have : l' ≠ l := by intro e; subst e; omega
        simp [Stmt.labels, List.count_cons, ih, this]
    all_goals simp [unusedL, unusedS, Stmt.labels, ih]
  | .node k b :: ss => by
    simp [unusedL, unusedS_labels rc l h (.node k b), unusedL_labels rc l h ss]
end

mutual
theorem unusedS_labels_sub (rc : Nat → Nat) : ∀ s, (unusedS rc s).labels <+ s.labels
  | .atom d a => by simp [unusedS]
  | .node k b => by simpa [unusedS] using unusedL_labels_sub rc b
theorem unusedL_labels_sub (rc : Nat → Nat) : ∀ ss, labelsL (unusedL rc ss) <+ labelsL ss
  | [] => by simp [unusedL]
  | .atom d a :: ss => by
    have ih := unusedL_labels_sub rc ss
    cases a
    case label l' =>
      simp only [unusedL]
      split
      · simpa [Stmt.labels] using ih
      · simpa [Stmt.labels] using ih.trans (List.sublist_cons_self _ _)
    all_goals simpa [unusedL, unusedS, Stmt.labels] using ih
  | .node k b :: ss => by
    simp only [unusedL, labelsL_cons]
    exact Sublist.append (unusedS_labels_sub rc (.node k b)) (unusedL_labels_sub rc ss)
end

/-! ### `decompile_loop` -/

/-- statements that a loop or a cond chain may consume: untagged, no explicit time -/
def Consumable (s : Stmt) : Prop :=
  (∃ d, s = .atom none (.jump (.goto d none))) ∨ (∃ c d, s = .atom none (.condJump .if_ c (.goto d none)))

theorem jmpInfo_some {ss : Block} {rc : Nat → Nat} {s : Stmt} {j : JmpInfo} (h : jmpInfo ss rc s = some j) :
    (∃ d, s = .atom none (.jump (.goto d j.time)) ∧ j.kind = .uncond ∧ labelIndex ss d = some j.dest ∧ j.destRc = rc d) ∨
    (∃ c d, s = .atom none (.condJump .if_ c (.goto d j.time)) ∧ j.kind = .cond .if_ c ∧ labelIndex ss d = some j.dest ∧ j.destRc = rc d) := by
  unfold jmpInfo at h
  split at h
  · rename_i d t
    simp only [Option.map_eq_some_iff] at h
    obtain ⟨i, hi, rfl⟩ := h
    exact .inl ⟨d, rfl, rfl, hi, rfl⟩
  · rename_i c d t
    simp only [Option.map_eq_some_iff] at h
    obtain ⟨i, hi, rfl⟩ := h
    exact .inr ⟨c, d, rfl, rfl, hi, rfl⟩
  · cases h

theorem jmpInfo_consumable {ss : Block} {rc : Nat → Nat} {s : Stmt} {j : JmpInfo} (h : jmpInfo ss rc s = some j)
    (ht : j.time = none) : Consumable s := by
  rcases jmpInfo_some h with ⟨d, hs, _⟩ | ⟨c, d, hs, _⟩
  · left; exact ⟨d, by rw [hs, ht]⟩
  · right; exact ⟨c, d, by rw [hs, ht]⟩

theorem Consumable.filterMap {β} {f : Option String × Atom → Option β} (hf : Good0 f) {s : Stmt} (h : Consumable s) :
    s.atoms.filterMap f = [] := by
  rcases h with ⟨d, rfl⟩ | ⟨c, d, rfl⟩
  · simp [fm_cons, hf.jump]
  · simp [fm_cons, hf.condJump]

theorem Consumable.labels {s : Stmt} (h : Consumable s) : s.labels = [] := by
  rcases h with ⟨d, rfl⟩ | ⟨c, d, rfl⟩ <;> simp [Stmt.labels]

theorem shouldLoop_time {ints idx src j pos} (h : shouldLoop ints idx src j = some pos) : j.time = none := by
  unfold shouldLoop at h
  split at h
  · cases h
  · rename_i ht
    cases hj : j.time
    · rfl
    · simp [hj] at ht

/-- the kind of the new loop mentions no label that the consumed jump did not mention -/
theorem makeLoop_refs {ss : Block} {rc : Nat → Nat} {s : Stmt} {j : JmpInfo} (h : jmpInfo ss rc s = some j) (i : Nat) :
    (makeLoop i j.kind).refs <+ s.refs := by
  rcases jmpInfo_some h with ⟨d, hs, hk, _⟩ | ⟨c, d, hs, hk, _⟩
  · rw [hk]; simp [makeLoop, Kind.refs]
  · rw [hk, hs]; simp [makeLoop, Kind.refs, Atom.refs]

/-- one step of the loop scan either appends the statement, or appends it and folds a suffix of the
output, minus the consumable statement itself, into a new node -/
theorem loopStep_spec {ss : Block} {ints : List Nat} {st st' : ScanState} {i : Nat} {s : Stmt}
    (h : loopStep ss ints st i s = .ok st') :
    st'.out = st.out ++ [s] ∨
    (∃ pre body k, st.out = pre ++ body ∧ st'.out = pre ++ [.node k body] ∧ k.refs <+ s.refs ∧ Consumable s) := by
  unfold loopStep at h
  dsimp only at h
  split at h
  · cases h; left; rfl
  · rename_i j hj
    split at h
    · cases h; left; rfl
    · rename_i pos hpos
      split at h
      · cases h
      · rename_i r revBody hrev
        cases h
        right
        have h1 : (st.out ++ [s]).drop (pos + 1) = revBody.reverse ++ [r] := by
          have := congrArg List.reverse hrev
          simpa using this
        have h2 : st.out ++ [s] = ((st.out ++ [s]).take (pos + 1) ++ revBody.reverse) ++ [r] := by
          rw [List.append_assoc, ← h1, List.take_append_drop]
        have h3 := List.append_inj' h2 rfl
        refine ⟨_, _, _, h3.1, rfl, makeLoop_refs hj i, jmpInfo_consumable hj (shouldLoop_time hpos)⟩

theorem loopScan_spec {β} {f : Option String × Atom → Option β} (hf : Good0 f) {ss : Block} {ints : List Nat} :
    ∀ (rest : List Stmt) (i : Nat) (st st' : ScanState), loopScan ss ints rest i st = .ok st' →
      (atomsL st'.out).filterMap f = (atomsL st.out).filterMap f ++ (atomsL rest).filterMap f ∧
      labelsL st'.out = labelsL st.out ++ labelsL rest ∧
      ∀ l, (refsL st'.out).count l ≤ (refsL st.out).count l + (refsL rest).count l
  | [], i, st, st', h => by
    simp only [loopScan] at h; cases h; simp
  | s :: rest, i, st, st', h => by
    simp only [loopScan] at h
    split at h
    · rename_i st1 hstep
      have ih := loopScan_spec hf rest (i + 1) st1 st' h
      rcases loopStep_spec hstep with h1 | ⟨pre, body, k, h1, h2, h3, h4⟩
      · rw [h1] at ih
        obtain ⟨ih1, ih2, ih3⟩ := ih
        refine ⟨?_, ?_, ?_⟩
        · simpa [List.filterMap_append, List.append_assoc] using ih1
        · simpa [List.append_assoc] using ih2
        · intro l
          have := ih3 l
          simp only [refsL_append, refsL_cons, refsL_nil, List.append_nil, List.count_append] at this ⊢
          omega
      · rw [h2] at ih
        rw [h1]
        obtain ⟨ih1, ih2, ih3⟩ := ih
        refine ⟨?_, ?_, ?_⟩
        · simpa [List.filterMap_append, List.append_assoc, h4.filterMap hf] using ih1
        · simpa [List.append_assoc, h4.labels] using ih2
        · intro l
          have := ih3 l
          have hk := h3.count_le l
          simp only [refsL_append, refsL_cons, refs_node, refsL_nil, List.append_nil, List.count_append] at this ⊢
          omega
    · cases h
    · cases h

theorem decompileLoop_spec {β} {f : Option String × Atom → Option β} (hf : Good0 f) {ss a : Block}
    (h : decompileLoop ss = .ok a) :
    (atomsL a).filterMap f = (atomsL ss).filterMap f ∧ labelsL a = labelsL ss ∧
    ∀ l, (refsL a).count l ≤ (refsL ss).count l := by
  unfold decompileLoop at h
  split at h
  · rename_i st hst
    cases h
    have := loopScan_spec hf ss 0 ⟨[], []⟩ st hst
    simpa using this
  · cases h
  · cases h

/-! ### `decompile_if_else`: what `gather_cond_chain` guarantees -/

theorem isLabel_iff {l : Nat} {s : Stmt} : isLabel l s = true ↔ ∃ d, s = .atom d (.label l) := by
  unfold isLabel
  split
  · rename_i d l'
    simp only [beq_iff_eq]
    constructor
    · rintro rfl; exact ⟨d, rfl⟩
    · rintro ⟨d', h⟩; cases h; rfl
  · rename_i hne
    constructor
    · intro h; cases h
    · rintro ⟨d, rfl⟩; exact absurd rfl (hne d l)

theorem labelIndexFrom_spec (l : Nat) : ∀ (ss : List Stmt) (k : Nat) (acc : Option Nat) (i : Nat),
    labelIndexFrom l ss k acc = some i →
    acc = some i ∨ (k ≤ i ∧ ∃ d, ss[i - k]? = some (.atom d (.label l)))
  | [], k, acc, i, h => by simp only [labelIndexFrom] at h; exact .inl h
  | s :: ss, k, acc, i, h => by
    simp only [labelIndexFrom] at h
    rcases labelIndexFrom_spec l ss (k + 1) _ i h with h1 | ⟨h1, d, h2⟩
    · split at h1
      · rename_i hl
        cases h1
        obtain ⟨d, rfl⟩ := isLabel_iff.mp hl
        right; exact ⟨Nat.le_refl _, d, by simp⟩
      · left; exact h1
    · right
      refine ⟨by omega, d, ?_⟩
      have : i - k = (i - (k + 1)) + 1 := by omega
      rw [this]; simpa using h2

theorem labelIndex_spec {ss : Block} {l i : Nat} (h : labelIndex ss l = some i) :
    ∃ d, ss[i]? = some (.atom d (.label l)) := by
  rcases labelIndexFrom_spec l ss 0 none i h with h1 | ⟨_, d, h2⟩
  · cases h1
  · exact ⟨d, by simpa using h2⟩

/-- facts about one cond block of a gathered chain, as far as they are known while the chain is
still being gathered (the block is followed by another block or an `else`) -/
structure ArmAcc (ss : Block) (rc : Nat → Nat) (cb : CondBlockInfo) : Prop where
  lt : cb.ifIndex < cb.labelIndex
  ifJ : ∃ j, jmpAt ss rc cb.ifIndex = some j ∧ j.time = none ∧ j.dest = cb.labelIndex ∧ j.destRc ≤ 1 ∧
    ∃ kw c, j.kind = .cond kw c ∧ cb.cond.refs = c.refs
  unc : ∃ u, jmpAt ss rc (cb.labelIndex - 1) = some u ∧ u.time = none

/-- facts about one cond block of a finished chain -/
structure ArmOK (ss : Block) (rc : Nat → Nat) (endLabel : Nat) (cb : CondBlockInfo) : Prop where
  lt : cb.ifIndex < cb.labelIndex
  ifJ : ∃ j, jmpAt ss rc cb.ifIndex = some j ∧ j.time = none ∧ j.dest = cb.labelIndex ∧
    (cb.labelIndex ≠ endLabel → j.destRc ≤ 1) ∧ ∃ kw c, j.kind = .cond kw c ∧ cb.cond.refs = c.refs
  unc : cb.labelIndex ≠ endLabel → ∃ u, jmpAt ss rc (cb.labelIndex - 1) = some u ∧ u.time = none

theorem ArmAcc.ok {ss rc cb} (h : ArmAcc ss rc cb) (e : Nat) : ArmOK ss rc e cb :=
  ⟨h.lt, by obtain ⟨j, a, b, c, d, e⟩ := h.ifJ; exact ⟨j, a, b, c, fun _ => d, e⟩, fun _ => h.unc⟩

theorem time_none_of_not_isSome {t : Option Int} (h : ¬ t.isSome = true) : t = none := by
  cases t <;> simp_all

theorem gatherGo_spec {ss : Block} {rc : Nat → Nat} : ∀ (fuel src : Nat) (chain : List CondBlockInfo)
    (ke : Option Nat) (info : ChainInfo), (∀ cb ∈ chain, ArmAcc ss rc cb) →
    gatherGo ss rc fuel src chain ke = some info → ∀ cb ∈ info.chain, ArmOK ss rc info.endLabel cb
  | 0, _, _, _, _, _, h => by simp [gatherGo] at h
  | fuel + 1, src, chain, ke, info, hacc, h => by
    unfold gatherGo at h
    split at h
    · cases h
    · rename_i ifJ hif
      split at h
      · cases h
      · rename_i ht
        split at h
        · cases h
        · rename_i hdir
          split at h
          · cases h
          · cases h
          · rename_i kw op a b hkind
            split at h
            · cases h
            split at h
            · cases h
            · rename_i nop hneg
              dsimp only at h
              have htime := time_none_of_not_isSome ht
              have hlt : src < ifJ.dest := by omega
              -- the new block, when it is the last one of a chain without `else`
              have hlast : ∀ cb ∈ chain ++ [(⟨kw, .bin nop a b, src, ifJ.dest⟩ : CondBlockInfo)],
                  ArmOK ss rc ifJ.dest cb := by
                intro cb hcb
                rcases List.mem_append.mp hcb with hc | hc
                · exact (hacc cb hc).ok _
                · simp only [List.mem_singleton] at hc
                  subst hc
                  exact ⟨hlt, ⟨ifJ, hif, htime, rfl, fun hne => absurd rfl hne, kw, _, hkind, rfl⟩, fun hne => absurd rfl hne⟩
              split at h
              · split at h
                · split at h
                  · cases h
                  · cases h; exact hlast
                · cases h; exact hlast
              · rename_i u hu
                have hu' : jmpAt ss rc (ifJ.dest - 1) = some u := by
                  split at hu
                  · exact hu
                  · cases hu
                split at h
                · cases h
                · rename_i hrc
                  split at h
                  · cases h
                  · rename_i hut
                    split at h
                    · cases h
                    · split at h
                      · cases h
                      · split at h
                        · cases h
                        · have hacc' : ∀ cb ∈ chain ++ [(⟨kw, .bin nop a b, src, ifJ.dest⟩ : CondBlockInfo)],
                              ArmAcc ss rc cb := by
                            intro cb hcb
                            rcases List.mem_append.mp hcb with hc | hc
                            · exact hacc cb hc
                            · simp only [List.mem_singleton] at hc
                              subst hc
                              exact ⟨hlt, ⟨ifJ, hif, htime, rfl, by omega, kw, _, hkind, rfl⟩, ⟨u, hu', time_none_of_not_isSome hut⟩⟩
                          split at h
                          · exact gatherGo_spec fuel _ _ _ info hacc' h
                          · split at h
                            · cases h
                            · cases h
                              intro cb hcb
                              exact (hacc' cb hcb).ok _

theorem gatherCondChain_spec {ss : Block} {rc : Nat → Nat} {ints : List Nat} {start : Nat} {info : ChainInfo}
    (h : gatherCondChain ss rc ints start = some info) : ∀ cb ∈ info.chain, ArmOK ss rc info.endLabel cb := by
  unfold gatherCondChain at h
  split at h
  · cases h
  · rename_i info' hg
    dsimp only at h
    have key : ∀ cb ∈ info'.chain, ArmOK ss rc info'.endLabel cb := gatherGo_spec _ _ _ _ _ (by simp) hg
    split at h <;> split at h
    · cases h
    · cases h; exact key
    · cases h
    · cases h; exact key

/-! ### `decompile_if_else`: building the chain -/

theorem buildArm_ok {e : Nat} {cb : CondBlockInfo} {st st' : BuildState} {arm : Stmt}
    (h : buildArm e cb st = .ok (arm, st')) :
    st.index = cb.ifIndex ∧ ∃ first body labelStmt rest',
      isCondJumpStmt first = true ∧ isLabelStmt labelStmt = true ∧
      arm = .node (.arm cb.kw cb.cond) body ∧
      st' = ⟨st.index + (cb.labelIndex - cb.ifIndex) + 1, rest'⟩ ∧
      st.rest.drop (cb.labelIndex - cb.ifIndex) = labelStmt :: rest' ∧
      ((cb.labelIndex = e ∧ st.rest.take (cb.labelIndex - cb.ifIndex) ++ [labelStmt] = first :: body) ∨
       (cb.labelIndex ≠ e ∧ ∃ r, isJumpStmt r = true ∧ st.rest.take (cb.labelIndex - cb.ifIndex) = (first :: body) ++ [r])) := by
  unfold buildArm at h
  split at h
  · cases h
  · rename_i hidx
    dsimp only at h
    refine ⟨by simpa using hidx, ?_⟩
    split at h
    · cases h
    · cases h
    · rename_i inner hpop
      split at h
      · cases h
      · rename_i labelStmt rest hdrop
        split at h
        · cases h
        · rename_i hlab
          split at h
          · cases h
          · rename_i first body hinner
            split at h
            · cases h
            · rename_i hcj
              cases h
              refine ⟨first, body, labelStmt, rest, by simpa using hcj, by simpa using hlab, rfl, rfl, hdrop, ?_⟩
              by_cases he : cb.labelIndex = e
              · left
                refine ⟨he, ?_⟩
                simp only [he, bne_self_eq_false, Bool.false_eq_true, ↓reduceIte] at hpop
                cases hpop
                simpa [he] using hinner
              · right
                refine ⟨he, ?_⟩
                have hne : (cb.labelIndex != e) = true := by simpa using he
                have hne' : (cb.labelIndex == e) = false := by simpa using he
                simp only [hne, ↓reduceIte] at hpop
                simp only [hne', Bool.false_eq_true, ↓reduceIte] at hinner
                split at hpop
                · cases hpop
                · rename_i r revInner hrev
                  split at hpop
                  · rename_i hj
                    cases hpop
                    refine ⟨r, hj, ?_⟩
                    have := congrArg List.reverse hrev
                    simp only [List.reverse_reverse, List.reverse_cons] at this
                    rw [this, hinner]
                  · cases hpop

/-- `ys` replaces `xs`: what one rewriting step may do to the three observations.  `rc` are the
refcounts the pass was started with. -/
structure Step {β} (f : Option String × Atom → Option β) (rc : Nat → Nat) (xs ys : List Stmt) : Prop where
  fm : (atomsL ys).filterMap f = (atomsL xs).filterMap f
  refs : ∀ l, (refsL ys).count l ≤ (refsL xs).count l
  labels : ∀ l, (labelsL ys).count l ≤ (labelsL xs).count l
  dropped : ∀ l, (labelsL ys).count l < (labelsL xs).count l →
    rc l ≤ 1 ∧ (refsL ys).count l < (refsL xs).count l

theorem Step.rfl {β} {f : Option String × Atom → Option β} {rc xs} : Step f rc xs xs :=
  ⟨by simp, fun _ => Nat.le_refl _, fun _ => Nat.le_refl _, fun l h => absurd h (Nat.lt_irrefl _)⟩

theorem Step.trans {β} {f : Option String × Atom → Option β} {rc xs ys zs}
    (h1 : Step f rc xs ys) (h2 : Step f rc ys zs) : Step f rc xs zs := by
  refine ⟨h2.fm.trans h1.fm, fun l => Nat.le_trans (h2.refs l) (h1.refs l),
    fun l => Nat.le_trans (h2.labels l) (h1.labels l), ?_⟩
  intro l hl
  by_cases hm : (labelsL ys).count l < (labelsL xs).count l
  · obtain ⟨a, b⟩ := h1.dropped l hm
    exact ⟨a, Nat.lt_of_le_of_lt (h2.refs l) b⟩
  · have : (labelsL zs).count l < (labelsL ys).count l := by have := h1.labels l; omega
    obtain ⟨a, b⟩ := h2.dropped l this
    exact ⟨a, Nat.lt_of_lt_of_le b (h1.refs l)⟩

theorem Step.append {β} {f : Option String × Atom → Option β} {rc xs ys xs' ys'}
    (h1 : Step f rc xs ys) (h2 : Step f rc xs' ys') : Step f rc (xs ++ xs') (ys ++ ys') := by
  refine ⟨by simp [List.filterMap_append, h1.fm, h2.fm], ?_, ?_, ?_⟩
  · intro l; have := h1.refs l; have := h2.refs l; simp only [refsL_append, List.count_append]; omega
  · intro l; have := h1.labels l; have := h2.labels l; simp only [labelsL_append, List.count_append]; omega
  · intro l hl
    simp only [labelsL_append, refsL_append, List.count_append] at hl ⊢
    have a1 := h1.refs l; have a2 := h2.refs l; have b1 := h1.labels l; have b2 := h2.labels l
    by_cases hm : (labelsL ys).count l < (labelsL xs).count l
    · obtain ⟨a, b⟩ := h1.dropped l hm; exact ⟨a, by omega⟩
    · have : (labelsL ys').count l < (labelsL xs').count l := by omega
      obtain ⟨a, b⟩ := h2.dropped l this; exact ⟨a, by omega⟩

theorem Step.node {β} {f : Option String × Atom → Option β} {rc xs ys} (k : Kind)
    (h : Step f rc xs ys) : Step f rc [.node k xs] [.node k ys] := by
  refine ⟨by simpa using h.fm, ?_, by simpa using h.labels, ?_⟩
  · intro l; have := h.refs l; simp only [refsL_cons, refs_node, refsL_nil, List.append_nil, List.count_append]; omega
  · intro l hl
    simp only [labelsL_cons, labels_node, labelsL_nil, List.append_nil] at hl
    obtain ⟨a, b⟩ := h.dropped l hl
    refine ⟨a, ?_⟩
    simp only [refsL_cons, refs_node, refsL_nil, List.append_nil, List.count_append]; omega

theorem getElem?_of_drop_eq_cons {α} {ss : List α} {i : Nat} {x : α} {xs : List α} (h : ss.drop i = x :: xs) :
    ss[i]? = some x := by
  have : (ss.drop i)[0]? = some x := by rw [h]; rfl
  simpa using this

theorem jmpAt_some {ss : Block} {rc : Nat → Nat} {i : Nat} {j : JmpInfo} (h : jmpAt ss rc i = some j) :
    ∃ s, ss[i]? = some s ∧ jmpInfo ss rc s = some j := by
  unfold jmpAt at h
  split at h
  · rename_i s hs; exact ⟨s, hs, h⟩
  · cases h

theorem jmpAt_cond {ss : Block} {rc : Nat → Nat} {i : Nat} {j : JmpInfo} {kw c} (h : jmpAt ss rc i = some j)
    (hk : j.kind = .cond kw c) (ht : j.time = none) :
    ∃ d, ss[i]? = some (.atom none (.condJump .if_ c (.goto d none))) ∧ labelIndex ss d = some j.dest ∧ j.destRc = rc d := by
  obtain ⟨s, hs, hj⟩ := jmpAt_some h
  rcases jmpInfo_some hj with ⟨d, _, hk', _⟩ | ⟨c', d, hs', hk', hl, hr⟩
  · rw [hk] at hk'; cases hk'
  · rw [hk] at hk'; cases hk'
    exact ⟨d, by rw [hs, hs', ht], hl, hr⟩

theorem buildArm_step {β} {f : Option String × Atom → Option β} (hf : Good0 f) {ss : Block} {rc : Nat → Nat}
    {e : Nat} {cb : CondBlockInfo} {st st' : BuildState} {arm : Stmt}
    (hsync : st.rest = ss.drop st.index) (hok : ArmOK ss rc e cb) (h : buildArm e cb st = .ok (arm, st')) :
    ∃ consumed, st.rest = consumed ++ st'.rest ∧ st'.index = st.index + consumed.length ∧
      Step f rc consumed [arm] := by
  obtain ⟨hidx, first, body, labelStmt, rest', hcj, hlab, rfl, rfl, hdrop, hcase⟩ := buildArm_ok h
  have hlt := hok.lt
  obtain ⟨j, hj, hjt, hjd, hjrc, kw, c, hjk, hcr⟩ := hok.ifJ
  generalize hlen : cb.labelIndex - cb.ifIndex = len at hdrop hcase
  have hlen1 : 1 ≤ len := by omega
  have hsplit : st.rest = st.rest.take len ++ labelStmt :: rest' := by rw [← hdrop, List.take_append_drop]
  have hlong : len < st.rest.length := by
    have := congrArg List.length hdrop
    simp only [List.length_drop, List.length_cons] at this; omega
  have htl : (st.rest.take len).length = len := by simp [List.length_take]; omega
  refine ⟨st.rest.take len ++ [labelStmt], by simpa using hsplit, by simp [htl, Nat.add_assoc], ?_⟩
  -- the first statement is the conditional jump that `gather` looked at
  have hfirst : ∃ tl, st.rest.take len = first :: tl := by
    rcases hcase with ⟨_, hc⟩ | ⟨_, r, _, hc⟩
    · cases htk : st.rest.take len with
      | nil => rw [htk] at htl; simp at htl; omega
      | cons x tl => rw [htk] at hc; simp at hc; exact ⟨tl, by rw [hc.1]⟩
    · exact ⟨body ++ [r], by simpa using hc⟩
  obtain ⟨tl, htl'⟩ := hfirst
  have hss : ss[cb.ifIndex]? = some first := by
    apply getElem?_of_drop_eq_cons (xs := tl ++ labelStmt :: rest')
    rw [← hidx, ← hsync, hsplit, htl']; simp
  obtain ⟨d, hd, hld, hrd⟩ := jmpAt_cond hj hjk hjt
  rw [hss] at hd
  have hfeq : first = .atom none (.condJump .if_ c (.goto d none)) := Option.some.inj hd
  -- the label statement is the destination of that jump
  have hlabel : ss[cb.labelIndex]? = some labelStmt := by
    have : ss.drop (st.index + len) = labelStmt :: rest' := by
      rw [← List.drop_drop, ← hsync]; exact hdrop
    have h2 := getElem?_of_drop_eq_cons this
    have : st.index + len = cb.labelIndex := by omega
    rwa [this] at h2
  obtain ⟨dl, hdl⟩ := labelIndex_spec hld
  rw [hjd, hlabel] at hdl
  have hleq : labelStmt = .atom dl (.label d) := Option.some.inj hdl
  rcases hcase with ⟨he, hc⟩ | ⟨he, r, hr, hc⟩
  · -- the label stays, only the conditional jump goes
    rw [hc, hfeq]
    refine ⟨by simp [fm_cons, hf.condJump], ?_, by simp [Stmt.labels], ?_⟩
    · intro l; simp only [refsL_cons, refs_node, refs_atom, Atom.refs, Kind.refs, hcr, refsL_nil, List.append_nil,
        List.count_append]; omega
    · intro l hl; simp [Stmt.labels] at hl
  · -- the label and the jump in front of it go as well
    obtain ⟨u, hu, hut⟩ := hok.unc he
    have hr' : ss[cb.labelIndex - 1]? = some r := by
      have h1 : st.rest = (first :: body) ++ r :: labelStmt :: rest' := by rw [hsplit, hc]; simp
      have h2 : (first :: body).length + 1 = len := by
        have := congrArg List.length hc; rw [htl] at this; simp at this; simp; omega
      have h3 : ss.drop (st.index + (first :: body).length) = r :: labelStmt :: rest' := by
        rw [← List.drop_drop, ← hsync, h1, List.drop_left]
      have h4 := getElem?_of_drop_eq_cons h3
      have : st.index + (first :: body).length = cb.labelIndex - 1 := by omega
      rwa [this] at h4
    obtain ⟨s, hs, hsj⟩ := jmpAt_some hu
    rw [hr'] at hs
    have hreq : r = s := Option.some.inj hs
    have hcons : Consumable r := hreq ▸ jmpInfo_consumable hsj hut
    rw [hc, hfeq, hleq]
    refine ⟨?_, ?_, ?_, ?_⟩
    · simp [fm_cons, hf.condJump, hf.label, List.filterMap_append, hcons.filterMap hf]
    · intro l; simp only [refsL_cons, refsL_append, refs_node, refs_atom, Atom.refs, Kind.refs, hcr, refsL_nil,
        List.append_nil, List.count_append]; omega
    · intro l; simp only [labelsL_cons, labelsL_append, labels_node, labelsL_nil, List.append_nil, List.count_append]; omega
    · intro l hl
      simp only [labelsL_cons, labelsL_append, labels_node, labelsL_nil, List.append_nil, List.count_append,
        hcons.labels, Stmt.labels, List.count_nil, List.count_cons, List.count_singleton] at hl
      have hld' : d = l := by
        by_cases hdl : d = l
        · exact hdl
        · simp [hdl] at hl
      subst hld'
      refine ⟨by rw [← hrd]; exact hjrc he, ?_⟩
      simp only [refsL_cons, refsL_append, refs_node, refs_atom, Atom.refs, Kind.refs, hcr, refsL_nil,
        List.append_nil, List.count_append, Jump.refs, List.count_singleton, beq_self_eq_true, ↓reduceIte]
      omega

theorem Step.wrap {β} {f : Option String × Atom → Option β} {rc xs ys} (k : Kind) (hk : k.refs = [])
    (h : Step f rc xs ys) : Step f rc xs [.node k ys] := by
  refine ⟨by simpa using h.fm, ?_, by simpa using h.labels, ?_⟩
  · intro l; simpa [hk] using h.refs l
  · intro l hl
    simp only [labelsL_cons, labels_node, labelsL_nil, List.append_nil] at hl
    simpa [hk] using h.dropped l hl

theorem sync_after {ss consumed r : List Stmt} {i : Nat} (h1 : consumed ++ r = ss.drop i) :
    r = ss.drop (i + consumed.length) := by
  rw [← List.drop_drop, ← h1, List.drop_left]

theorem buildArms_step {β} {f : Option String × Atom → Option β} (hf : Good0 f) {ss : Block} {rc : Nat → Nat}
    {e : Nat} : ∀ (cbs : List CondBlockInfo) (st st' : BuildState) (arms : List Stmt),
    st.rest = ss.drop st.index → (∀ cb ∈ cbs, ArmOK ss rc e cb) → buildArms e cbs st = .ok (arms, st') →
    ∃ consumed, st.rest = consumed ++ st'.rest ∧ st'.index = st.index + consumed.length ∧
      Step f rc consumed arms
  | [], st, st', arms, _, _, h => by
    simp only [buildArms] at h; cases h
    exact ⟨[], by simp, by simp, Step.rfl⟩
  | cb :: cbs, st, st', arms, hsync, hok, h => by
    simp only [buildArms] at h
    split at h
    · cases h
    · cases h
    · rename_i arm st1 h1
      split at h
      · cases h
      · cases h
      · rename_i arms' st2 h2
        cases h
        obtain ⟨c1, e1, i1, s1⟩ := buildArm_step hf hsync (hok cb (List.mem_cons_self ..)) h1
        have hsync1 : st1.rest = ss.drop st1.index := by
          rw [i1]; exact sync_after (by rw [← e1, hsync])
        obtain ⟨c2, e2, i2, s2⟩ := buildArms_step hf cbs st1 st' arms' hsync1
          (fun cb' hcb' => hok cb' (List.mem_cons_of_mem _ hcb')) h2
        refine ⟨c1 ++ c2, by rw [e1, e2, List.append_assoc], by rw [i2, i1, List.length_append]; omega, ?_⟩
        exact Step.append s1 s2

theorem buildChain_step {β} {f : Option String × Atom → Option β} (hf : Good0 f) {ss : Block} {rc : Nat → Nat}
    {info : ChainInfo} {st st' : BuildState} {node : Stmt}
    (hsync : st.rest = ss.drop st.index) (hok : ∀ cb ∈ info.chain, ArmOK ss rc info.endLabel cb)
    (h : buildChain info st = .ok (node, st')) :
    ∃ consumed, st.rest = consumed ++ st'.rest ∧ st'.index = st.index + consumed.length ∧
      Step f rc consumed [node] := by
  unfold buildChain at h
  split at h
  · cases h
  · cases h
  · rename_i arms st1 h1
    obtain ⟨c1, e1, i1, s1⟩ := buildArms_step hf info.chain st st1 arms hsync hok h1
    split at h
    · split at h
      · cases h
      · cases h
        exact ⟨c1, e1, i1, s1.wrap .chain rfl⟩
    · rename_i es hes
      split at h
      · cases h
      · dsimp only at h
        split at h
        · cases h
        · split at h
          · cases h
          · rename_i labelStmt rest hdrop
            split at h
            · cases h
            · split at h
              · cases h
              · cases h
                generalize hlen : info.endLabel - es = len at hdrop
                have hsplit : st1.rest = st1.rest.take len ++ labelStmt :: rest := by
                  rw [← hdrop, List.take_append_drop]
                have hlong : len < st1.rest.length := by
                  have := congrArg List.length hdrop
                  simp only [List.length_drop, List.length_cons] at this; omega
                have htl : (st1.rest.take len).length = len := by simp [List.length_take]; omega
                refine ⟨c1 ++ (st1.rest.take len ++ [labelStmt]), ?_, ?_, ?_⟩
                · rw [e1, List.append_assoc]; congr 1; simpa using hsplit
                · simp only [i1, List.length_append, htl, List.length_cons, List.length_nil]; omega
                · refine Step.wrap .chain rfl (Step.append s1 ?_)
                  exact Step.wrap .els rfl Step.rfl

theorem chainFrom_step {β} {f : Option String × Atom → Option β} (hf : Good0 f) {ss : Block} {rc : Nat → Nat}
    {ints : List Nat} : ∀ (fuel : Nat) (st : BuildState) (out : List Stmt),
    st.rest = ss.drop st.index → chainFrom ss rc ints fuel st = .ok out → Step f rc st.rest out
  | 0, _, _, _, h => by simp [chainFrom] at h
  | fuel + 1, st, out, hsync, h => by
    unfold chainFrom at h
    split at h
    · split at h
      · split at h
        · cases h
        · rename_i s rest hrest
          split at h
          · rename_i out' hrec
            cases h
            have hsync' : rest = ss.drop (st.index + 1) := by
              have := sync_after (ss := ss) (consumed := [s]) (r := rest) (i := st.index) (by rw [← hsync, hrest]; rfl)
              simpa using this
            have ih := chainFrom_step hf fuel ⟨st.index + 1, rest⟩ out' hsync' hrec
            rw [hrest]
            exact Step.append (xs := [s]) (ys := [s]) Step.rfl ih
          · cases h
          · cases h
      · rename_i info hinfo
        split at h
        · cases h
        · cases h
        · rename_i node st1 hb
          obtain ⟨c1, e1, i1, s1⟩ := buildChain_step hf hsync (gatherCondChain_spec hinfo) hb
          have hsync1 : st1.rest = ss.drop st1.index := by
            rw [i1]; exact sync_after (by rw [← e1, hsync])
          split at h
          · rename_i out' hrec
            cases h
            have ih := chainFrom_step hf fuel st1 out' hsync1 hrec
            rw [e1]
            exact Step.append s1 ih
          · cases h
          · cases h
    · rename_i hge
      cases h
      have : st.rest = [] := by rw [hsync]; apply List.drop_eq_nil_of_le; omega
      rw [this]; exact Step.rfl

theorem descendWith_step {β} {f : Option String × Atom → Option β} {rc : Nat → Nat}
    {g : Block → Outcome Block} (hg : ∀ b b', g b = .ok b' → Step f rc b b') :
    ∀ (ss out : List Stmt), descendWith g ss = .ok out → Step f rc ss out
  | [], out, h => by simp only [descendWith] at h; cases h; exact Step.rfl
  | .atom d a :: rest, out, h => by
    simp only [descendWith] at h
    split at h
    · rename_i out' hrec
      cases h
      exact Step.append (xs := [.atom d a]) (ys := [.atom d a]) Step.rfl (descendWith_step hg rest out' hrec)
    · cases h
    · cases h
  | .node k body :: rest, out, h => by
    simp only [descendWith] at h
    split at h
    · cases h
    · cases h
    · rename_i body' hb
      split at h
      · rename_i out' hrec
        cases h
        exact Step.append (xs := [.node k body]) (ys := [.node k body']) ((hg _ _ hb).node k)
          (descendWith_step hg rest out' hrec)
      · cases h
      · cases h

theorem ifElseBlock_step {β} {f : Option String × Atom → Option β} (hf : Good0 f) {rc : Nat → Nat} :
    ∀ (fuel : Nat) (ss out : Block), ifElseBlock rc fuel ss = .ok out → Step f rc ss out
  | 0, _, _, h => by simp [ifElseBlock] at h
  | fuel + 1, ss, out, h => by
    simp only [ifElseBlock] at h
    split at h
    · cases h
    · cases h
    · rename_i new hnew
      have h1 : Step f rc ss new := chainFrom_step hf _ ⟨0, ss⟩ new (by simp) hnew
      exact h1.trans (descendWith_step (fun b b' hb => ifElseBlock_step hf fuel b b' hb) new out h)

/-! ### interrupt labels stay outside every reconstructed block -/

def isIntLeaf (p : Option String × Atom) : Bool :=
  match p.2 with
  | .interrupt _ => true
  | _ => false

/-- no interrupt label anywhere inside -/
def IntFree (b : List Stmt) : Prop := ∀ p ∈ atomsL b, isIntLeaf p = false

/-- every nested block of this block is free of interrupt labels -/
def TopOnly (ss : List Stmt) : Prop := ∀ k b, Stmt.node k b ∈ ss → IntFree b

theorem mem_atomsL {p : Option String × Atom} : ∀ {b : List Stmt}, p ∈ atomsL b ↔ ∃ x ∈ b, p ∈ x.atoms
  | [] => by simp
  | s :: ss => by simp [mem_atomsL (b := ss)]

theorem isInterrupt_iff_leaf (d : Option String) (a : Atom) : isInterrupt (.atom d a) = isIntLeaf (d, a) := by
  cases a <;> rfl

theorem mem_interruptIndicesFrom : ∀ (ss : List Stmt) (k j : Nat) (s : Stmt), ss[j]? = some s → isInterrupt s = true →
    (k + j) ∈ interruptIndicesFrom ss k
  | [], _, _, _, h, _ => by simp at h
  | x :: xs, k, 0, s, h, hs => by
    simp at h; subst h
    simp [interruptIndicesFrom, hs]
  | x :: xs, k, j + 1, s, h, hs => by
    have ih := mem_interruptIndicesFrom xs (k + 1) j s (by simpa using h) hs
    have e : k + 1 + j = k + (j + 1) := by omega
    rw [e] at ih
    simp only [interruptIndicesFrom]
    split
    · exact List.mem_cons_of_mem _ ih
    · exact ih

theorem mem_interruptIndices {ss : List Stmt} {i : Nat} {s : Stmt} (h : ss[i]? = some s) (hs : isInterrupt s = true) :
    i ∈ interruptIndices ss := by
  have := mem_interruptIndicesFrom ss 0 i s h hs
  simpa [interruptIndices] using this

theorem loopStep_spec2 {ss : Block} {ints : List Nat} {st st' : ScanState} {i : Nat} {s : Stmt}
    (h : loopStep ss ints st i s = .ok st') :
    (st'.out = st.out ++ [s] ∧ st'.idx = st.idx ++ [i]) ∨
    (∃ j pos r body, jmpInfo ss (fun _ => 0) s = some j ∧ shouldLoop ints (st.idx ++ [i]) i j = some pos ∧
      (st.out ++ [s]).drop (pos + 1) = body ++ [r] ∧
      st'.out = (st.out ++ [s]).take (pos + 1) ++ [.node (makeLoop i j.kind) body] ∧
      st'.idx = (st.idx ++ [i]).take (pos + 1) ++ [i]) := by
  unfold loopStep at h
  dsimp only at h
  split at h
  · cases h; left; exact ⟨rfl, rfl⟩
  · rename_i j hj
    split at h
    · cases h; left; exact ⟨rfl, rfl⟩
    · rename_i pos hpos
      split at h
      · cases h
      · rename_i r revBody hrev
        cases h
        right
        refine ⟨j, pos, r, revBody.reverse, hj, hpos, ?_, rfl, rfl⟩
        have := congrArg List.reverse hrev
        simpa using this

theorem shouldLoop_spec {ints idx : List Nat} {src : Nat} {j : JmpInfo} {pos : Nat}
    (h : shouldLoop ints idx src j = some pos) :
    idx[pos]? = some j.dest ∧ ints.any (fun k => j.dest ≤ k && k < src) = false := by
  unfold shouldLoop at h
  split at h
  · cases h
  · split at h
    · cases h
    · split at h
      · cases h
      · rename_i pos' hfind
        split at h
        · cases h
        · rename_i hany
          cases h
          refine ⟨?_, by simpa using hany⟩
          rw [List.findIdx?_eq_some_iff_getElem] at hfind
          obtain ⟨hlt, hp, _⟩ := hfind
          have : idx[pos] = j.dest := by simpa using hp
          rw [← this]; exact List.getElem?_eq_getElem hlt

/-- invariant of the loop scan: `idx[m]` is the original position of `out[m]` -/
structure LInv (ss : Block) (i : Nat) (st : ScanState) : Prop where
  len : st.idx.length = st.out.length
  sorted : st.idx.Pairwise (· < ·)
  bound : ∀ k ∈ st.idx, k < i
  orig : ∀ (m : Nat) (d : Option String) (a : Atom) (k : Nat), st.out[m]? = some (.atom d a) → st.idx[m]? = some k →
    ss[k]? = some (.atom d a)
  jumps : ∀ (m : Nat) (kd : Kind) (b : List Stmt) (k : Nat), st.out[m]? = some (.node kd b) → st.idx[m]? = some k →
    ∃ s, ss[k]? = some s ∧ Consumable s
  nodes : TopOnly st.out

theorem LInv.ints {ss : Block} {i : Nat} {st : ScanState} (h : LInv ss i st) (m : Nat) (s : Stmt) (k : Nat)
    (hm : st.out[m]? = some s) (hk : st.idx[m]? = some k) (hint : isInterrupt s = true) : k ∈ interruptIndices ss := by
  cases s with
  | atom d a => exact mem_interruptIndices (h.orig m d a k hm hk) hint
  | node kd b => simp [isInterrupt] at hint

theorem LInv.push {ss : Block} {i : Nat} {st : ScanState} (h : LInv ss i st) {d a} (hs : ss[i]? = some (.atom d a)) :
    LInv ss (i + 1) ⟨st.out ++ [.atom d a], st.idx ++ [i]⟩ := by
  refine ⟨by simp [h.len], ?_, ?_, ?_, ?_, ?_⟩
  · rw [List.pairwise_append]
    exact ⟨h.sorted, by simp, fun a ha b hb => by simp at hb; subst hb; exact h.bound a ha⟩
  · intro k hk
    rcases List.mem_append.mp hk with hk | hk
    · have := h.bound k hk; omega
    · simp at hk; omega
  · intro m d' a' k hm hk
    by_cases hlt : m < st.out.length
    · rw [List.getElem?_append_left hlt] at hm
      rw [List.getElem?_append_left (by rw [h.len]; exact hlt)] at hk
      exact h.orig m d' a' k hm hk
    · have hge : st.out.length ≤ m := by omega
      rw [List.getElem?_append_right hge] at hm
      rw [List.getElem?_append_right (by rw [h.len]; exact hge)] at hk
      have hm0 : m - st.out.length = 0 := by
        cases hmm : m - st.out.length with
        | zero => rfl
        | succ n => rw [hmm] at hm; simp at hm
      rw [hm0] at hm; rw [h.len, hm0] at hk
      simp at hm hk
      obtain ⟨rfl, rfl⟩ := hm; subst hk
      exact hs
  · intro m kd b k hm hk
    by_cases hlt : m < st.out.length
    · rw [List.getElem?_append_left hlt] at hm
      rw [List.getElem?_append_left (by rw [h.len]; exact hlt)] at hk
      exact h.jumps m kd b k hm hk
    · have hge : st.out.length ≤ m := by omega
      rw [List.getElem?_append_right hge] at hm
      cases hmm : m - st.out.length with
      | zero => rw [hmm] at hm; simp at hm
      | succ n => rw [hmm] at hm; simp at hm
  · intro k b hkb
    rcases List.mem_append.mp hkb with hkb | hkb
    · exact h.nodes k b hkb
    · simp at hkb

theorem loopStep_inv {ss : Block} {st st' : ScanState} {i : Nat} {d a}
    (hinv : LInv ss i st) (hs : ss[i]? = some (.atom d a))
    (h : loopStep ss (interruptIndices ss) st i (.atom d a) = .ok st') : LInv ss (i + 1) st' := by
  have hpush := hinv.push hs
  rcases loopStep_spec2 h with ⟨h1, h2⟩ | ⟨j, pos, r, body, hjmp, hsl, hdrop, h1, h2⟩
  · have : st' = ⟨st.out ++ [.atom d a], st.idx ++ [i]⟩ := by cases st'; simp_all
    rw [this]; exact hpush
  · obtain ⟨hidx, hany⟩ := shouldLoop_spec hsl
    -- names for the pushed state
    generalize hout' : st.out ++ [Stmt.atom d a] = out' at *
    generalize hidx' : st.idx ++ [i] = idx' at *
    have hlen' : idx'.length = out'.length := hpush.len
    have hposlt : pos < idx'.length := by
      rcases Nat.lt_or_ge pos idx'.length with h | h
      · exact h
      · rw [List.getElem?_eq_none h] at hidx; cases hidx
    -- the label is not the last statement: something follows it
    have hdl : (out'.drop (pos + 1)).length = body.length + 1 := by rw [hdrop]; simp
    have hpos1 : pos + 1 + body.length + 1 = out'.length := by
      simp only [List.length_drop] at hdl; omega
    have htake_len : (out'.take (pos + 1)).length = pos + 1 := by simp [List.length_take]; omega
    have htake_len' : (idx'.take (pos + 1)).length = pos + 1 := by simp [List.length_take]; omega
    have hst' : st' = ⟨out'.take (pos + 1) ++ [.node (makeLoop i j.kind) body], idx'.take (pos + 1) ++ [i]⟩ := by
      cases st'; simp_all
    rw [hst']
    -- elements of the prefix of idx' come from st.idx, hence are below i
    have hpre_bound : ∀ k ∈ idx'.take (pos + 1), k < i := by
      intro k hk
      have hlenidx : idx'.length = st.idx.length + 1 := by rw [← hidx']; simp
      have : idx'.take (pos + 1) = st.idx.take (pos + 1) := by
        rw [← hidx', List.take_append_of_le_length]; omega
      rw [this] at hk
      exact hinv.bound k (List.mem_of_mem_take hk)
    refine ⟨by simp [htake_len, htake_len'], ?_, ?_, ?_, ?_, ?_⟩
    · rw [List.pairwise_append]
      refine ⟨hpush.sorted.sublist (List.take_sublist _ _), by simp, ?_⟩
      intro a ha b hb; simp at hb; subst hb; exact hpre_bound a ha
    · intro k hk
      rcases List.mem_append.mp hk with hk | hk
      · have := hpre_bound k hk; omega
      · simp at hk; omega
    · intro m d' a' k hm hk
      by_cases hlt : m < pos + 1
      · rw [List.getElem?_append_left (by omega)] at hm
        rw [List.getElem?_append_left (by omega)] at hk
        rw [List.getElem?_take_of_lt hlt] at hm hk
        exact hpush.orig m d' a' k hm hk
      · rw [List.getElem?_append_right (by omega)] at hm
        cases hmm : m - (out'.take (pos + 1)).length with
        | zero => rw [hmm] at hm; simp at hm
        | succ n => rw [hmm] at hm; simp at hm
    · intro m kd b k hm hk
      by_cases hlt : m < pos + 1
      · rw [List.getElem?_append_left (by omega)] at hm
        rw [List.getElem?_append_left (by omega)] at hk
        rw [List.getElem?_take_of_lt hlt] at hm hk
        exact hpush.jumps m kd b k hm hk
      · rw [List.getElem?_append_right (by omega)] at hk
        have hm0 : m - (idx'.take (pos + 1)).length = 0 := by
          cases hmm : m - (idx'.take (pos + 1)).length with
          | zero => rfl
          | succ n => rw [hmm] at hk; simp at hk
        rw [hm0] at hk; simp at hk; subst hk
        exact ⟨_, hs, jmpInfo_consumable hjmp (shouldLoop_time hsl)⟩
    · intro k b hkb
      rcases List.mem_append.mp hkb with hkb | hkb
      · exact hpush.nodes k b (List.mem_of_mem_take hkb)
      · simp only [List.mem_singleton, Stmt.node.injEq] at hkb
        obtain ⟨_, rfl⟩ := hkb
        -- the new body: statements strictly between the label and the jump
        intro p hp
        obtain ⟨x, hx, hpx⟩ := mem_atomsL.mp hp
        obtain ⟨t, ht, hxt⟩ := List.getElem_of_mem hx
        have hxo : out'[pos + 1 + t]? = some x := by
          have : (out'.drop (pos + 1))[t]? = some x := by
            rw [hdrop, List.getElem?_append_left ht, List.getElem?_eq_getElem ht, hxt]
          simpa using this
        cases x with
        | node k' b' =>
          have hmem : Stmt.node k' b' ∈ out' := List.mem_of_getElem? hxo
          exact hpush.nodes k' b' hmem p (by simpa using hpx)
        | atom d' a' =>
          simp only [atoms_atom, List.mem_singleton] at hpx
          subst hpx
          cases hint : isIntLeaf (d', a') with
          | false => rfl
          | true =>
            exfalso
            have hm : pos + 1 + t < idx'.length := by omega
            have hk := List.getElem?_eq_getElem hm
            have hkin := hpush.ints (pos + 1 + t) _ _ hxo hk (by rw [isInterrupt_iff_leaf]; exact hint)
            -- position: dest < k < i
            have hgt : j.dest < idx'[pos + 1 + t] := by
              have := List.pairwise_iff_getElem.mp hpush.sorted pos (pos + 1 + t) hposlt hm (by omega)
              have hd : idx'[pos] = j.dest := by
                have := List.getElem?_eq_getElem hposlt; rw [hidx] at this; exact (Option.some.inj this).symm
              rw [hd] at this; exact this
            have hlt : idx'[pos + 1 + t] < i := by
              have hlenidx : idx'.length = st.idx.length + 1 := by rw [← hidx']; simp
              have hm' : pos + 1 + t < st.idx.length := by rw [hlen'] at hlenidx; omega
              have : idx'[pos + 1 + t] = st.idx[pos + 1 + t] := by
                simp only [← hidx']; rw [List.getElem_append_left hm']
              rw [this]; exact hinv.bound _ (List.getElem_mem hm')
            have : (interruptIndices ss).any (fun k => decide (j.dest ≤ k) && decide (k < i)) = true := by
              rw [List.any_eq_true]
              exact ⟨_, hkin, by simp; omega⟩
            rw [this] at hany; cases hany

def Flat (ss : Block) : Prop := ∀ s ∈ ss, ∃ d a, s = Stmt.atom d a

theorem loopScan_inv {ss : Block} (hflat : Flat ss) : ∀ (rest : List Stmt) (i : Nat) (st st' : ScanState),
    rest = ss.drop i → LInv ss i st → loopScan ss (interruptIndices ss) rest i st = .ok st' → TopOnly st'.out
  | [], i, st, st', _, hinv, h => by simp only [loopScan] at h; cases h; exact hinv.nodes
  | s :: rest, i, st, st', hsync, hinv, h => by
    simp only [loopScan] at h
    have hsi : ss[i]? = some s := getElem?_of_drop_eq_cons hsync.symm
    obtain ⟨d, a, rfl⟩ := hflat s (List.mem_of_getElem? hsi)
    split at h
    · rename_i st1 hstep
      have hsync' : rest = ss.drop (i + 1) := by
        have := sync_after (ss := ss) (consumed := [Stmt.atom d a]) (r := rest) (i := i) (by rw [← hsync]; rfl)
        simpa using this
      exact loopScan_inv hflat rest (i + 1) st1 st' hsync' (loopStep_inv hinv hsi hstep) h
    · cases h
    · cases h

theorem decompileLoop_topOnly {ss a : Block} (hflat : Flat ss) (h : decompileLoop ss = .ok a) : TopOnly a := by
  unfold decompileLoop at h
  split at h
  · rename_i st hst
    cases h
    refine loopScan_inv hflat ss 0 ⟨[], []⟩ st (by simp) ?_ hst
    exact ⟨rfl, by simp, by simp, by simp, by simp, by intro k b h; simp at h⟩
  · cases h
  · cases h

/-! break and unused-label removal keep nested blocks free of interrupt labels -/

def intView (p : Option String × Atom) : Option (Option String × Atom) := if isIntLeaf p then some p else none

theorem intView_good : Good intView :=
  ⟨⟨by intro d l; rfl, by intro l; rfl, by intro c l; rfl⟩, by intro d l; rfl, by intro d kw c l; rfl⟩

theorem intFree_iff_filterMap {b : List Stmt} : IntFree b ↔ (atomsL b).filterMap intView = [] := by
  unfold IntFree
  rw [List.filterMap_eq_nil_iff]
  constructor
  · intro h p hp; simp [intView, h p hp]
  · intro h p hp
    have := h p hp
    cases hq : isIntLeaf p with
    | false => rfl
    | true => simp [intView, hq] at this

theorem intFree_of_fm {b b' : List Stmt} (h : (atomsL b').filterMap intView = (atomsL b).filterMap intView)
    (hb : IntFree b) : IntFree b' := by
  rw [intFree_iff_filterMap] at hb ⊢; rw [h, hb]

theorem mem_breakL {m cur} : ∀ {ss : List Stmt} {s' : Stmt}, s' ∈ breakL m cur ss → ∃ s ∈ ss, s' = breakS m cur s
  | [], _, h => by simp [breakL] at h
  | s :: ss, s', h => by
    simp only [breakL, List.mem_cons] at h
    rcases h with h | h
    · exact ⟨s, List.mem_cons_self .., h⟩
    · obtain ⟨x, hx, e⟩ := mem_breakL h; exact ⟨x, List.mem_cons_of_mem _ hx, e⟩

theorem breakL_topOnly {m cur} {ss : List Stmt} (h : TopOnly ss) : TopOnly (breakL m cur ss) := by
  intro k b hkb
  obtain ⟨s, hs, e⟩ := mem_breakL hkb
  cases s with
  | atom d a => simp [breakS] at e
  | node k' b' =>
    simp only [breakS, Stmt.node.injEq] at e
    obtain ⟨rfl, rfl⟩ := e
    exact intFree_of_fm (breakL_filterMap intView intView_good m _ b') (h _ _ hs)

theorem mem_unusedL {rc} : ∀ {ss : List Stmt} {s' : Stmt}, s' ∈ unusedL rc ss → ∃ s ∈ ss, s' = unusedS rc s
  | [], _, h => by simp [unusedL] at h
  | .atom d a :: ss, s', h => by
    have key : s' = .atom d a ∨ s' ∈ unusedL rc ss := by
      cases a
      case label l =>
        simp only [unusedL] at h
        split at h
        · simpa using h
        · exact .inr h
      all_goals (simp only [unusedL, unusedS, List.mem_cons] at h; exact h)
    rcases key with h | h
    · exact ⟨.atom d a, List.mem_cons_self .., by simp [unusedS, h]⟩
    · obtain ⟨x, hx, e⟩ := mem_unusedL h; exact ⟨x, List.mem_cons_of_mem _ hx, e⟩
  | .node k b :: ss, s', h => by
    simp only [unusedL, List.mem_cons] at h
    rcases h with h | h
    · exact ⟨.node k b, List.mem_cons_self .., h⟩
    · obtain ⟨x, hx, e⟩ := mem_unusedL h; exact ⟨x, List.mem_cons_of_mem _ hx, e⟩

theorem unusedL_topOnly {rc} {ss : List Stmt} (h : TopOnly ss) : TopOnly (unusedL rc ss) := by
  intro k b hkb
  obtain ⟨s, hs, e⟩ := mem_unusedL hkb
  cases s with
  | atom d a => simp [unusedS] at e
  | node k' b' =>
    simp only [unusedS, Stmt.node.injEq] at e
    obtain ⟨rfl, rfl⟩ := e
    exact intFree_of_fm (unusedL_filterMap intView intView_good.toGood0 rc b') (h _ _ hs)

/-! cond chains -/

theorem buildArms_last {e : Nat} : ∀ (cbs : List CondBlockInfo) (st st' : BuildState) (arms : List Stmt),
    buildArms e cbs st = .ok (arms, st') →
    (cbs = [] ∧ st' = st) ∨ (∃ l pre, isLabelStmt l = true ∧ st.rest = pre ++ l :: st'.rest)
  | [], st, st', arms, h => by simp only [buildArms] at h; cases h; left; exact ⟨rfl, rfl⟩
  | cb :: cbs, st, st', arms, h => by
    simp only [buildArms] at h
    split at h
    · cases h
    · cases h
    · rename_i arm st1 h1
      split at h
      · cases h
      · cases h
      · rename_i arms' st2 h2
        cases h
        right
        obtain ⟨_, first, body, labelStmt, rest', _, hlab, _, hst1, hdrop, _⟩ := buildArm_ok h1
        have hsplit : ∃ tk, st.rest = tk ++ labelStmt :: rest' :=
          ⟨st.rest.take (cb.labelIndex - cb.ifIndex), by rw [← hdrop, List.take_append_drop]⟩
        obtain ⟨tk, hsplit⟩ := hsplit
        have hr1 : st1.rest = rest' := by rw [hst1]
        rcases buildArms_last cbs st1 st' arms' h2 with ⟨_, rfl⟩ | ⟨l, pre, hl, hpre⟩
        · exact ⟨labelStmt, _, hlab, by rw [hr1]; exact hsplit⟩
        · refine ⟨l, tk ++ labelStmt :: pre, hl, ?_⟩
          rw [hsplit, ← hr1, hpre]; simp

theorem buildArms_first {e : Nat} {cb : CondBlockInfo} {cbs : List CondBlockInfo} {st st' : BuildState} {arms : List Stmt}
    (h : buildArms e (cb :: cbs) st = .ok (arms, st')) : st.index = cb.ifIndex := by
  simp only [buildArms] at h
  split at h
  · cases h
  · cases h
  · rename_i arm st1 h1
    exact (buildArm_ok h1).1

theorem buildChain_last {info : ChainInfo} {st st' : BuildState} {node : Stmt}
    (h : buildChain info st = .ok (node, st')) :
    st'.index = info.endLabel + 1 ∧
    ((st'.index = st.index ∧ st'.rest = st.rest) ∨ ∃ l pre, isLabelStmt l = true ∧ st.rest = pre ++ l :: st'.rest) ∧
    (∀ cb tl, info.chain = cb :: tl → st.index = cb.ifIndex) ∧ ∃ arms, node = .node .chain arms := by
  unfold buildChain at h
  split at h
  · cases h
  · cases h
  · rename_i arms st1 h1
    have hfirst : ∀ cb tl, info.chain = cb :: tl → st.index = cb.ifIndex := by
      intro cb tl hc; rw [hc] at h1; exact buildArms_first h1
    have hl1 := buildArms_last _ _ _ _ h1
    split at h
    · split at h
      · cases h
      · rename_i hidx
        cases h
        refine ⟨by simpa using hidx, ?_, hfirst, _, rfl⟩
        rcases hl1 with ⟨_, rfl⟩ | h
        · left; exact ⟨rfl, rfl⟩
        · right; exact h
    · rename_i es hes
      split at h
      · cases h
      · dsimp only at h
        split at h
        · cases h
        · split at h
          · cases h
          · rename_i labelStmt rest hdrop
            split at h
            · cases h
            · rename_i hlab
              split at h
              · cases h
              · rename_i hidx
                cases h
                refine ⟨by simpa using hidx, ?_, hfirst, _, rfl⟩
                right
                have hsplit : ∃ tk, st1.rest = tk ++ labelStmt :: rest :=
                  ⟨st1.rest.take (info.endLabel - es), by rw [← hdrop, List.take_append_drop]⟩
                obtain ⟨tk, hsplit⟩ := hsplit
                rcases hl1 with ⟨_, rfl⟩ | ⟨l, pre, _, hpre⟩
                · exact ⟨labelStmt, _, by simpa using hlab, hsplit⟩
                · refine ⟨labelStmt, pre ++ l :: tk, by simpa using hlab, ?_⟩
                  rw [hpre, hsplit]; simp

theorem gatherCondChain_check {ss : Block} {rc : Nat → Nat} {ints : List Nat} {start : Nat} {info : ChainInfo}
    (h : gatherCondChain ss rc ints start = some info) :
    ints.any (fun i => (match info.chain with | cb :: _ => cb.ifIndex | [] => start) ≤ i && i < info.endLabel) = false := by
  unfold gatherCondChain at h
  split at h
  · cases h
  · rename_i info' hg
    dsimp only at h
    split at h
    · rename_i cb tl hchain
      split at h
      · cases h
      · rename_i hc; cases h; rw [hchain]; simpa using hc
    · rename_i hchain
      split at h
      · cases h
      · rename_i hc; cases h; rw [hchain]; simpa using hc

theorem isLabelStmt_not_int {l : Stmt} (h : isLabelStmt l = true) : isInterrupt l = false := by
  unfold isLabelStmt at h
  split at h
  · rfl
  · cases h

/-- the statements a new chain swallows contain no interrupt label -/
theorem buildChain_intFree {ss : Block} {rc : Nat → Nat} {info : ChainInfo} {st st' : BuildState} {node : Stmt}
    (htop : TopOnly ss) (hsync : st.rest = ss.drop st.index)
    (hinfo : gatherCondChain ss rc (interruptIndices ss) st.index = some info)
    (h : buildChain info st = .ok (node, st')) : ∃ arms, node = .node .chain arms ∧ IntFree arms := by
  obtain ⟨c1, e1, i1, s1⟩ := buildChain_step intView_good.toGood0 hsync (gatherCondChain_spec hinfo) h
  obtain ⟨hend, hlast, hfirst, arms, rfl⟩ := buildChain_last h
  refine ⟨arms, rfl, ?_⟩
  have hfm : (atomsL arms).filterMap intView = (atomsL c1).filterMap intView := by simpa using s1.fm
  refine intFree_of_fm hfm ?_
  have hcheck := gatherCondChain_check hinfo
  have hfirst' : (match info.chain with | cb :: _ => cb.ifIndex | [] => st.index) = st.index := by
    cases hc : info.chain with
    | nil => rfl
    | cons cb tl => exact (hfirst cb tl hc).symm
  rw [hfirst'] at hcheck
  -- consumed = statements st.index .. endLabel of the block, the last one a label
  have hc1 : ss.drop st.index = c1 ++ st'.rest := by rw [← hsync, e1]
  intro p hp
  obtain ⟨x, hx, hpx⟩ := mem_atomsL.mp hp
  obtain ⟨t, ht, hxt⟩ := List.getElem_of_mem hx
  have hxs : ss[st.index + t]? = some x := by
    have : (ss.drop st.index)[t]? = some x := by
      rw [hc1, List.getElem?_append_left ht, List.getElem?_eq_getElem ht, hxt]
    simpa using this
  cases x with
  | node k b => exact htop k b (List.mem_of_getElem? hxs) p (by simpa using hpx)
  | atom d a =>
    simp only [atoms_atom, List.mem_singleton] at hpx
    subst hpx
    cases hint : isIntLeaf (d, a) with
    | false => rfl
    | true =>
      exfalso
      have hI : isInterrupt (.atom d a) = true := by rw [isInterrupt_iff_leaf]; exact hint
      by_cases hte : st.index + t < info.endLabel
      · have hmem := mem_interruptIndices hxs hI
        have : (interruptIndices ss).any (fun i => decide (st.index ≤ i) && decide (i < info.endLabel)) = true := by
          rw [List.any_eq_true]; exact ⟨_, hmem, by simp; omega⟩
        rw [this] at hcheck; cases hcheck
      · -- then it is the last consumed statement, which is a label
        rcases hlast with ⟨hi, _⟩ | ⟨l, pre, hl, hpre⟩
        · omega
        · have hcl : c1 = pre ++ [l] := by
            have : c1 ++ st'.rest = (pre ++ [l]) ++ st'.rest := by rw [← e1, hpre]; simp
            exact List.append_cancel_right this
          have hlen : c1.length = pre.length + 1 := by rw [hcl]; simp
          have htl : t = pre.length := by omega
          have : c1[t]? = some l := by rw [hcl, htl]; simp
          rw [List.getElem?_eq_getElem ht, hxt] at this
          have := Option.some.inj this
          rw [← this] at hl
          rw [isLabelStmt_not_int hl] at hI; cases hI

theorem chainFrom_topOnly {ss : Block} {rc : Nat → Nat} (htop : TopOnly ss) :
    ∀ (fuel : Nat) (st : BuildState) (out : List Stmt), st.rest = ss.drop st.index →
    chainFrom ss rc (interruptIndices ss) fuel st = .ok out → TopOnly out
  | 0, _, _, _, h => by simp [chainFrom] at h
  | fuel + 1, st, out, hsync, h => by
    unfold chainFrom at h
    split at h
    · split at h
      · split at h
        · cases h
        · rename_i s rest hrest
          split at h
          · rename_i out' hrec
            cases h
            have hsync' : rest = ss.drop (st.index + 1) := by
              have := sync_after (ss := ss) (consumed := [s]) (r := rest) (i := st.index) (by rw [← hsync, hrest]; rfl)
              simpa using this
            have ih := chainFrom_topOnly htop fuel ⟨st.index + 1, rest⟩ out' hsync' hrec
            intro k b hkb
            rcases List.mem_cons.mp hkb with hkb | hkb
            · have hs : s ∈ ss := by
                have : s ∈ ss.drop st.index := by rw [← hsync, hrest]; exact List.mem_cons_self ..
                exact List.mem_of_mem_drop this
              rw [← hkb] at hs; exact htop k b hs
            · exact ih k b hkb
          · cases h
          · cases h
      · rename_i info hinfo
        split at h
        · cases h
        · cases h
        · rename_i node st1 hb
          obtain ⟨c1, e1, i1, _⟩ := buildChain_step intView_good.toGood0 hsync (gatherCondChain_spec hinfo) hb
          have hsync1 : st1.rest = ss.drop st1.index := by
            rw [i1]; exact sync_after (by rw [← e1, hsync])
          obtain ⟨arms, rfl, harms⟩ := buildChain_intFree htop hsync hinfo hb
          split at h
          · rename_i out' hrec
            cases h
            have ih := chainFrom_topOnly htop fuel st1 out' hsync1 hrec
            intro k b hkb
            rcases List.mem_cons.mp hkb with hkb | hkb
            · simp only [Stmt.node.injEq] at hkb; obtain ⟨_, rfl⟩ := hkb; exact harms
            · exact ih k b hkb
          · cases h
          · cases h
    · cases h; intro k b hkb; simp at hkb

theorem descendWith_topOnly {g : Block → Outcome Block}
    (hg : ∀ b b', g b = .ok b' → (atomsL b').filterMap intView = (atomsL b).filterMap intView) :
    ∀ (ss out : List Stmt), TopOnly ss → descendWith g ss = .ok out → TopOnly out
  | [], out, _, h => by simp only [descendWith] at h; cases h; intro k b hkb; simp at hkb
  | .atom d a :: rest, out, htop, h => by
    simp only [descendWith] at h
    split at h
    · rename_i out' hrec
      cases h
      have ih := descendWith_topOnly hg rest out' (fun k b hkb => htop k b (List.mem_cons_of_mem _ hkb)) hrec
      intro k b hkb
      rcases List.mem_cons.mp hkb with hkb | hkb
      · cases hkb
      · exact ih k b hkb
    · cases h
    · cases h
  | .node k body :: rest, out, htop, h => by
    simp only [descendWith] at h
    split at h
    · cases h
    · cases h
    · rename_i body' hb
      split at h
      · rename_i out' hrec
        cases h
        have ih := descendWith_topOnly hg rest out' (fun k b hkb => htop k b (List.mem_cons_of_mem _ hkb)) hrec
        intro k' b hkb
        rcases List.mem_cons.mp hkb with hkb | hkb
        · simp only [Stmt.node.injEq] at hkb; obtain ⟨_, rfl⟩ := hkb
          exact intFree_of_fm (hg _ _ hb) (htop k body (List.mem_cons_self ..))
        · exact ih k' b hkb
      · cases h
      · cases h

theorem ifElseBlock_topOnly {rc : Nat → Nat} {fuel : Nat} {ss out : Block} (htop : TopOnly ss)
    (h : ifElseBlock rc fuel ss = .ok out) : TopOnly out := by
  cases fuel with
  | zero => simp [ifElseBlock] at h
  | succ fuel =>
    simp only [ifElseBlock] at h
    split at h
    · cases h
    · cases h
    · rename_i new hnew
      have h1 : TopOnly new := chainFrom_topOnly htop _ ⟨0, ss⟩ new (by simp) hnew
      exact descendWith_topOnly (fun b b' hb => (ifElseBlock_step intView_good.toGood0 fuel b b' hb).fm) new out h1 h

theorem Consumable.not_label {dl l} (h : Consumable (.atom dl (.label l))) : False := by
  rcases h with ⟨d, h⟩ | ⟨c, d, h⟩ <;> cases h

/-- One reconstruction step of `decompile_loop`, exactly: when the scan folds statements into a loop,
the current output is `pre ++ [l:] ++ body`, the scanned statement is the untagged `goto l` /
`if (c) goto l` without explicit time, and the new output is `pre ++ [l:, loop { body }]`
(`do { body } while (c)` for the conditional jump). -/
theorem loopStep_shape {ss : Block} {st st' : ScanState} {i : Nat} {d a}
    (hinv : LInv ss i st) (hs : ss[i]? = some (.atom d a))
    (h : loopStep ss (interruptIndices ss) st i (.atom d a) = .ok st') :
    st'.out = st.out ++ [.atom d a] ∨
    ∃ pre dl l body, st.out = pre ++ .atom dl (.label l) :: body ∧
      ((d = none ∧ a = .jump (.goto l none) ∧
          st'.out = pre ++ [.atom dl (.label l), .node (.loop i) body]) ∨
       (∃ c, d = none ∧ a = .condJump .if_ c (.goto l none) ∧
          st'.out = pre ++ [.atom dl (.label l), .node (.doWhile i c) body])) := by
  have hpush := hinv.push hs
  rcases loopStep_spec2 h with ⟨h1, _⟩ | ⟨j, pos, r, body, hjmp, hsl, hdrop, h1, _⟩
  · left; exact h1
  · right
    obtain ⟨hidx, _⟩ := shouldLoop_spec hsl
    have htime := shouldLoop_time hsl
    generalize hout' : st.out ++ [Stmt.atom d a] = out' at *
    generalize hidx' : st.idx ++ [i] = idx' at *
    have hlen' : idx'.length = out'.length := hpush.len
    have hposlt : pos < out'.length := by
      rcases Nat.lt_or_ge pos idx'.length with h | h
      · omega
      · rw [List.getElem?_eq_none h] at hidx; cases hidx
    have hx : out'[pos]? = some out'[pos] := List.getElem?_eq_getElem hposlt
    -- the statement at `pos` is the label the jump goes to
    have hlab : ∃ l, labelIndex ss l = some j.dest ∧
        ((d = none ∧ a = .jump (.goto l none) ∧ j.kind = .uncond) ∨
         (∃ c, d = none ∧ a = .condJump .if_ c (.goto l none) ∧ j.kind = .cond .if_ c)) := by
      rcases jmpInfo_some hjmp with ⟨l, hs', hk, hl, _⟩ | ⟨c, l, hs', hk, hl, _⟩
      · rw [htime] at hs'; cases hs'; exact ⟨l, hl, .inl ⟨rfl, rfl, hk⟩⟩
      · rw [htime] at hs'; cases hs'; exact ⟨l, hl, .inr ⟨c, rfl, rfl, hk⟩⟩
    obtain ⟨l, hl, hform⟩ := hlab
    obtain ⟨dl, hdl⟩ := labelIndex_spec hl
    have hxl : out'[pos] = .atom dl (.label l) := by
      cases hxe : out'[pos] with
      | atom dx ax =>
        rw [hxe] at hx
        have := hpush.orig pos dx ax j.dest hx hidx
        rw [hdl] at this; exact (Option.some.inj this).symm
      | node kd b =>
        rw [hxe] at hx
        obtain ⟨s, hs1, hs2⟩ := hpush.jumps pos kd b j.dest hx hidx
        rw [hdl] at hs1; cases hs1
        exact absurd hs2 Consumable.not_label
    have htake : out'.take (pos + 1) = out'.take pos ++ [.atom dl (.label l)] := by
      rw [List.take_succ, hx, hxl]; rfl
    have hsplit : out' = (out'.take pos ++ .atom dl (.label l) :: body) ++ [r] := by
      conv => lhs; rw [← List.take_append_drop (pos + 1) out', htake, hdrop]
      simp
    have hinj := List.append_inj' (hout'.trans hsplit) rfl
    refine ⟨out'.take pos, dl, l, body, hinj.1, ?_⟩
    rcases hform with ⟨hd, ha, hk⟩ | ⟨c, hd, ha, hk⟩
    · left; refine ⟨hd, ha, ?_⟩; rw [h1, htake, hk]; simp [makeLoop]
    · right; refine ⟨c, hd, ha, ?_⟩; rw [h1, htake, hk]; simp [makeLoop]

theorem loopScan_append {ss : Block} {ints : List Nat} : ∀ (xs ys : List Stmt) (i : Nat) (st : ScanState),
    loopScan ss ints (xs ++ ys) i st =
      match loopScan ss ints xs i st with
      | .ok st1 => loopScan ss ints ys (i + xs.length) st1
      | .err e => .err e
      | .panic p => .panic p
  | [], ys, i, st => by simp [loopScan]
  | x :: xs, ys, i, st => by
    simp only [List.cons_append, loopScan]
    split
    · rename_i st1 h1
      rw [loopScan_append xs ys (i + 1) st1]
      have : i + 1 + xs.length = i + (xs.length + 1) := by omega
      simp [this]
    · rfl
    · rfl

/-- the state of the loop scan after the first `n` statements of a flat block satisfies the invariant -/
theorem loopScan_prefix_inv {ss : Block} (hflat : Flat ss) : ∀ (n : Nat) (st : ScanState), n ≤ ss.length →
    loopScan ss (interruptIndices ss) (ss.take n) 0 ⟨[], []⟩ = .ok st → LInv ss n st
  | 0, st, _, h => by
    simp only [List.take_zero, loopScan] at h; cases h
    exact ⟨rfl, by simp, by simp, by simp, by simp, by intro k b h; simp at h⟩
  | n + 1, st, hn, h => by
    have hlt : n < ss.length := by omega
    have htake : ss.take (n + 1) = ss.take n ++ [ss[n]] := by
      rw [List.take_succ, List.getElem?_eq_getElem hlt]; rfl
    rw [htake, loopScan_append] at h
    split at h
    · rename_i st1 h1
      have ih := loopScan_prefix_inv hflat n st1 (by omega) h1
      have hlen : (ss.take n).length = n := by simp [List.length_take]; omega
      simp only [hlen, Nat.zero_add, loopScan] at h
      obtain ⟨d, a, hda⟩ := hflat ss[n] (List.getElem_mem hlt)
      have hs : ss[n]? = some (.atom d a) := by rw [List.getElem?_eq_getElem hlt, hda]
      rw [hda] at h
      split at h
      · rename_i st2 h2
        cases h
        exact loopStep_inv ih hs h2
      · cases h
      · cases h
    · cases h
    · cases h

end TruthModel.Decomp
