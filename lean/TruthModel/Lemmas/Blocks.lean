import TruthModel.Model.Blocks
/-
Helper lemmas for C06: waiting, the suffix presentation of the flat machine (`ExecS`: the
program counter is the remaining suffix of the program, so that no index arithmetic is needed in
the simulation proof) and its translation to the program-counter machine `Exec`, label lookup
from an explicit split of the program.
-/
namespace TruthModel.Blocks

/-! ### waiting -/

theorem wait_time_of_le {t : Int} {st st0 : St} (h : wait t st = some st0) (hle : st.time ≤ t) :
    st0.time = t := by
  unfold wait at h
  split at h
  · split at h
    · simp at h
    · split at h
      · simp at h
      · simp at h; subst h; rfl
  · simp at h; subst h; omega

theorem wait_self {t : Int} {st : St} (h : st.time = t) : wait t st = some st := by
  unfold wait; simp [h]

theorem wait_idem {t : Int} {st st0 : St} (h : wait t st = some st0) : wait t st0 = some st0 := by
  unfold wait at h
  split at h
  · split at h
    · simp at h
    · split at h
      · simp at h
      · simp at h; subst h; exact wait_self rfl
  · rename_i hlt
    simp at h; subst h; unfold wait; simp [hlt]

theorem wait_regs {t : Int} {st st0 : St} (h : wait t st = some st0) : st0.regs = st.regs := by
  unfold wait at h
  split at h
  · split at h
    · simp at h
    · split at h
      · simp at h
      · simp at h; subst h; rfl
  · simp at h; subst h; rfl

theorem St.setTime_self {st : St} {t : Int} (h : st.time = t) : st.setTime t = st := by
  cases st; simp [St.setTime] at *; exact h.symm

@[simp] theorem St.setTime_time (st : St) (t : Int) : (st.setTime t).time = t := rfl
@[simp] theorem St.setTime_regs (st : St) (t : Int) : (st.setTime t).regs = st.regs := rfl
@[simp] theorem St.setTime_setTime (st : St) (t u : Int) : (st.setTime t).setTime u = st.setTime u := rfl
@[simp] theorem St.setReg_time (st : St) (r : Nat) (v : Int32) : (st.setReg r v).time = st.time := rfl
@[simp] theorem St.doCall_time (st : St) (op : Nat) (a : List Expr) : (st.doCall op a).time = st.time := rfl
@[simp] theorem FS.setTime_mk (st : St) (tm : Nat → Int32) (t : Int) :
    (FS.mk st tm).setTime t = FS.mk (st.setTime t) tm := rfl

theorem wait_setTime (st : St) (t : Int) : wait t (st.setTime t) = some (st.setTime t) := wait_self rfl

/-! ### labels of a flat program -/

def labelsOf (p : List AF) : List Nat :=
  p.filterMap (fun a => match a.2 with | .label l => some l | _ => none)

@[simp] theorem labelsOf_nil : labelsOf [] = [] := rfl
@[simp] theorem labelsOf_append (a b : List AF) : labelsOf (a ++ b) = labelsOf a ++ labelsOf b := by
  simp [labelsOf, List.filterMap_append]
@[simp] theorem labelsOf_cons_label (t : Int) (l : Nat) (p : List AF) :
    labelsOf ((t, .label l) :: p) = l :: labelsOf p := by simp [labelsOf]

theorem labelsOf_cons_other (a : AF) (p : List AF) (h : ∀ l, a.2 ≠ .label l) :
    labelsOf (a :: p) = labelsOf p := by
  obtain ⟨t, f⟩ := a
  cases f <;> simp_all [labelsOf]

@[simp] theorem labelsOf_cons_nop (t : Int) (p : List AF) : labelsOf ((t, .nop) :: p) = labelsOf p := by simp [labelsOf]
@[simp] theorem labelsOf_cons_decl (t : Int) (k) (p : List AF) : labelsOf ((t, .decl k) :: p) = labelsOf p := by simp [labelsOf]
@[simp] theorem labelsOf_cons_scopeEnd (t : Int) (k) (p : List AF) : labelsOf ((t, .scopeEnd k) :: p) = labelsOf p := by simp [labelsOf]
@[simp] theorem labelsOf_cons_call (t : Int) (o a) (p : List AF) : labelsOf ((t, .call o a) :: p) = labelsOf p := by simp [labelsOf]
@[simp] theorem labelsOf_cons_assign (t : Int) (v e) (p : List AF) : labelsOf ((t, .assign v e) :: p) = labelsOf p := by simp [labelsOf]
@[simp] theorem labelsOf_cons_tabs (t : Int) (x) (p : List AF) : labelsOf ((t, .tabs x) :: p) = labelsOf p := by simp [labelsOf]
@[simp] theorem labelsOf_cons_trel (t : Int) (x) (p : List AF) : labelsOf ((t, .trel x) :: p) = labelsOf p := by simp [labelsOf]
@[simp] theorem labelsOf_cons_goto (t : Int) (l) (p : List AF) : labelsOf ((t, .goto l) :: p) = labelsOf p := by simp [labelsOf]
@[simp] theorem labelsOf_cons_cjmp (t : Int) (b c l) (p : List AF) : labelsOf ((t, .cjmp b c l) :: p) = labelsOf p := by simp [labelsOf]
@[simp] theorem labelsOf_cons_jz (t : Int) (v l) (p : List AF) : labelsOf ((t, .jz v l) :: p) = labelsOf p := by simp [labelsOf]
@[simp] theorem labelsOf_cons_cntjmp (t : Int) (k v l) (p : List AF) : labelsOf ((t, .cntjmp k v l) :: p) = labelsOf p := by simp [labelsOf]

theorem mem_labelsOf {p : List AF} {l : Nat} : l ∈ labelsOf p ↔ ∃ t, (t, FStmt.label l) ∈ p := by
  induction p with
  | nil => simp
  | cons a p ih =>
    obtain ⟨t, f⟩ := a
    cases f <;> simp_all [labelsOf]
    rename_i l'
    constructor
    · rintro (h | ⟨t', h⟩)
      · exact ⟨t, Or.inl ⟨rfl, h⟩⟩
      · exact ⟨t', Or.inr h⟩
    · rintro ⟨t', (⟨_, h⟩ | h)⟩
      · exact Or.inl h
      · exact Or.inr ⟨t', h⟩

/-! ### suffix machine -/

/-- the first suffix of `P` that starts with `label l` -/
def dropTo : List AF → Nat → Option (List AF)
  | [], _ => none
  | a :: p, l => if a.2.isLabel l then some (a :: p) else dropTo p l

/-- jump to label `l`: the time becomes the label's time -/
def jumpS (P : List AF) (l : Nat) (fs : FS) : Option (List AF × FS) :=
  match dropTo P l with
  | some (b :: c) => some (b :: c, fs.setTime b.1)
  | _ => none

def stepS (P : List AF) : List AF → FS → Option (List AF × FS)
  | [], _ => none
  | a :: c, fs =>
    match effect a fs with
    | none => none
    | some (fs1, none) => some (c, fs1)
    | some (fs1, some l) => jumpS P l fs1

inductive ExecS (P : List AF) : List AF → FS → List AF → FS → Prop
  | refl (c fs) : ExecS P c fs c fs
  | step (c fs c1 fs1 c2 fs2) : stepS P c fs = some (c1, fs1) → ExecS P c1 fs1 c2 fs2 → ExecS P c fs c2 fs2

theorem ExecS.trans {P : List AF} {a b c : List AF} {s1 s2 s3 : FS}
    (h1 : ExecS P a s1 b s2) (h2 : ExecS P b s2 c s3) : ExecS P a s1 c s3 := by
  induction h1 with
  | refl => exact h2
  | step c fs c1 fs1 c2 fs2 hs _ ih => exact .step _ _ _ _ _ _ hs (ih h2)

theorem ExecS.next {P : List AF} {a : AF} {c : List AF} {fs fs1 : FS}
    (h : effect a fs = some (fs1, none)) : ExecS P (a :: c) fs c fs1 :=
  .step _ _ _ _ _ _ (by simp [stepS, h]) (.refl _ _)

theorem ExecS.jump {P : List AF} {a : AF} {c J : List AF} {fs fs1 fsJ : FS} {l : Nat}
    (h : effect a fs = some (fs1, some l)) (hj : jumpS P l fs1 = some (J, fsJ)) : ExecS P (a :: c) fs J fsJ :=
  .step _ _ _ _ _ _ (by simp [stepS, h, hj]) (.refl _ _)

theorem not_mem_labelsOf_cons {a : AF} {X : List AF} {l : Nat} (h : l ∉ labelsOf (a :: X)) :
    a.2.isLabel l = false ∧ l ∉ labelsOf X := by
  obtain ⟨u, f⟩ := a
  cases f <;> simp_all [FStmt.isLabel]
  omega

theorem dropTo_split {X Y : List AF} {t : Int} {l : Nat} (h : l ∉ labelsOf X) :
    dropTo (X ++ (t, .label l) :: Y) l = some ((t, .label l) :: Y) := by
  induction X with
  | nil => simp [dropTo, FStmt.isLabel]
  | cons a X ih =>
    obtain ⟨h1, h2⟩ := not_mem_labelsOf_cons h
    simp [dropTo, h1, ih h2]

theorem jumpS_split {P X Y : List AF} {t : Int} {l : Nat} {fs : FS}
    (hP : P = X ++ (t, .label l) :: Y) (h : l ∉ labelsOf X) :
    jumpS P l fs = some ((t, .label l) :: Y, fs.setTime t) := by
  subst hP; simp [jumpS, dropTo_split h]

theorem dropTo_spec {P c : List AF} {l : Nat} (h : dropTo P l = some c) :
    ∃ X, P = X ++ c ∧ findLabel P l = some X.length := by
  induction P with
  | nil => simp [dropTo] at h
  | cons a P ih =>
    unfold dropTo at h
    split at h
    · rename_i hl
      simp at h; subst h
      exact ⟨[], rfl, by simp [findLabel, List.findIdx?_cons, hl]⟩
    · rename_i hl
      obtain ⟨X, hX, hf⟩ := ih h
      refine ⟨a :: X, by simp [hX], ?_⟩
      simp only [findLabel] at hf ⊢
      simp [List.findIdx?_cons, hl, hf]

theorem stepS_stepF {P X c c1 : List AF} {fs fs1 : FS} (h : stepS P c fs = some (c1, fs1)) (hP : P = X ++ c) :
    ∃ X1, P = X1 ++ c1 ∧ stepF P X.length fs = some (X1.length, fs1) := by
  cases c with
  | nil => simp [stepS] at h
  | cons a c =>
    have hget : P[X.length]? = some a := by subst hP; simp
    unfold stepS at h
    unfold stepF
    rw [hget]
    cases he : effect a fs with
    | none => simp [he] at h
    | some r =>
      obtain ⟨fs', tgt⟩ := r
      cases tgt with
      | none =>
        simp [he] at h
        obtain ⟨rfl, rfl⟩ := h
        exact ⟨X ++ [a], by simp [hP], by simp [he]⟩
      | some l =>
        simp only [he] at h ⊢
        unfold jumpS at h
        cases hd : dropTo P l with
        | none => simp [hd] at h
        | some J =>
          cases J with
          | nil => simp [hd] at h
          | cons b J =>
            simp [hd] at h
            obtain ⟨rfl, rfl⟩ := h
            obtain ⟨X1, hX1, hf⟩ := dropTo_spec hd
            refine ⟨X1, hX1, ?_⟩
            have hb : P[X1.length]? = some b := by rw [hX1]; simp
            simp [hf, hb]

theorem ExecS.toExec {P c c' : List AF} {fs fs' : FS} (h : ExecS P c fs c' fs') :
    ∀ X, P = X ++ c → ∃ X', P = X' ++ c' ∧ Exec P X.length fs X'.length fs' := by
  induction h with
  | refl c fs => intro X hX; exact ⟨X, hX, .refl _ _⟩
  | step c fs c1 fs1 c2 fs2 hs _ ih =>
    intro X hX
    obtain ⟨X1, hX1, hstep⟩ := stepS_stepF hs hX
    obtain ⟨X', hX', hex⟩ := ih X1 hX1
    exact ⟨X', hX', .step _ _ _ _ _ _ hstep hex⟩

/-- a complete run in the suffix presentation is a run of the program-counter machine -/
theorem ExecS.toExec_whole {P : List AF} {fs fs' : FS} (h : ExecS P P fs [] fs') :
    Exec P 0 fs P.length fs' := by
  obtain ⟨X', hX', hex⟩ := h.toExec [] (by simp)
  simp at hX'
  subst hX'
  simpa using hex

/-! ### effects of single flat statements -/

section effects
variable {t : Int} {st st0 : St} {tm : Nat → Int32}

theorem eff_nop (h : wait t st = some st0) : effect (t, .nop) ⟨st, tm⟩ = some (⟨st0, tm⟩, none) := by
  simp [effect, h]
theorem eff_decl {k} (h : wait t st = some st0) : effect (t, .decl k) ⟨st, tm⟩ = some (⟨st0, tm⟩, none) := by
  simp [effect, h]
theorem eff_scopeEnd {k} (h : wait t st = some st0) : effect (t, .scopeEnd k) ⟨st, tm⟩ = some (⟨st0, tm⟩, none) := by
  simp [effect, h]
theorem eff_label {l} (h : wait t st = some st0) : effect (t, .label l) ⟨st, tm⟩ = some (⟨st0, tm⟩, none) := by
  simp [effect, h]
theorem eff_tabs {x} (h : wait t st = some st0) : effect (t, .tabs x) ⟨st, tm⟩ = some (⟨st0, tm⟩, none) := by
  simp [effect, h]
theorem eff_trel {x} (h : wait t st = some st0) : effect (t, .trel x) ⟨st, tm⟩ = some (⟨st0, tm⟩, none) := by
  simp [effect, h]
theorem eff_call {op args} (h : wait t st = some st0) :
    effect (t, .call op args) ⟨st, tm⟩ = some (⟨st0.doCall op args, tm⟩, none) := by
  simp [effect, h]
theorem eff_assign_reg {r e} (h : wait t st = some st0) :
    effect (t, .assign (.reg r) e) ⟨st, tm⟩ = some (⟨st0.setReg r (e.eval st0.regs), tm⟩, none) := by
  simp [effect, h, FS.set]
theorem eff_assign_tmp {k e} (h : wait t st = some st0) :
    effect (t, .assign (.tmp k) e) ⟨st, tm⟩
      = some (⟨st0, fun j => if j = k then e.eval st0.regs else tm j⟩, none) := by
  simp [effect, h, FS.set]
theorem eff_goto {l} (h : wait t st = some st0) : effect (t, .goto l) ⟨st, tm⟩ = some (⟨st0, tm⟩, some l) := by
  simp [effect, h]
theorem eff_cjmp_yes {isIf c l} (h : wait t st = some st0) (hc : c.evalB st0.regs = isIf) :
    effect (t, .cjmp isIf c l) ⟨st, tm⟩ = some (⟨st0, tm⟩, some l) := by
  simp [effect, h, hc]
theorem eff_cjmp_no {isIf c l} (h : wait t st = some st0) (hc : c.evalB st0.regs ≠ isIf) :
    effect (t, .cjmp isIf c l) ⟨st, tm⟩ = some (⟨st0, tm⟩, none) := by
  simp [effect, h, hc]

end effects

/-- a label at the current time is a no-op -/
theorem ExecS.label_here {P c : List AF} {t : Int} {l : Nat} {st : St} {tm : Nat → Int32} (h : st.time = t) :
    ExecS P ((t, .label l) :: c) ⟨st, tm⟩ c ⟨st, tm⟩ :=
  ExecS.next (eff_label (wait_self h))

/-! ### label intervals of desugared code -/

def InRange (n n' : Nat) (p : List AF) : Prop := ∀ l ∈ labelsOf p, n ≤ l ∧ l < n'

@[simp] theorem bookend_snd (lt tE : Int) (r : List AF × Nat) : (bookend lt tE r).2 = r.2 := rfl
@[simp] theorem labelsOf_bookend (lt tE : Int) (r : List AF × Nat) :
    labelsOf (bookend lt tE r).1 = labelsOf r.1 := by simp [bookend]
@[simp] theorem desugarB_snd (k brk n lt b) : (desugarB k brk n lt b).2 = (desugarL k brk n lt b).2 := rfl
@[simp] theorem labelsOf_desugarB (k brk n lt b) :
    labelsOf (desugarB k brk n lt b).1 = labelsOf (desugarL k brk n lt b).1 := by simp [desugarB]

@[simp] theorem labelsOf_zeroTest (lt v l c) : labelsOf (zeroTest lt v l c) = [] := by
  unfold zeroTest; split <;> simp
@[simp] theorem labelsOf_gotoEnd (t ve ch) : labelsOf (gotoEnd t ve ch) = [] := by
  cases ch <;> simp [gotoEnd]

mutual
theorem rangeS (k : CJ) : ∀ (brk n : Nat) (lt : Int) (s : Stmt),
    n ≤ (desugarS k brk n lt s).2 ∧ InRange n (desugarS k brk n lt s).2 (desugarS k brk n lt s).1
  | brk, n, lt, .call op args => by simp [desugarS, InRange]
  | brk, n, lt, .assign r e => by simp [desugarS, InRange]
  | brk, n, lt, .tabs t => by simp [desugarS, InRange]
  | brk, n, lt, .trel d => by simp [desugarS, InRange]
  | brk, n, lt, .brk => by simp [desugarS, InRange]
  | brk, n, lt, .cbrk i c => by simp [desugarS, InRange]
  | brk, n, lt, .block b => by
    have h := rangeL k brk n lt b
    simpa [desugarS, InRange] using h
  | brk, n, lt, .cond ch => by
    have h := rangeC k brk n (n+1) lt ch
    simp only [desugarS]
    refine ⟨by omega, ?_⟩
    intro l hl
    simp at hl
    rcases hl with hl | rfl
    · have := h.2 l hl; omega
    · omega
  | brk, n, lt, .loop b => by
    have h := rangeL k n (n+2) lt b
    simp only [desugarS]
    refine ⟨by simp; omega, ?_⟩
    intro l hl
    simp at hl
    rcases hl with rfl | hl | rfl
    · simp; omega
    · have := h.2 l hl; simp; omega
    · simp; omega
  | brk, n, lt, .doWhile c b => by
    have h := rangeL k n (n+2) lt b
    simp only [desugarS]
    refine ⟨by simp; omega, ?_⟩
    intro l hl
    simp at hl
    rcases hl with rfl | hl | rfl
    · simp; omega
    · have := h.2 l hl; simp; omega
    · simp; omega
  | brk, n, lt, .while_ c b => by
    have h := rangeL k n (n+3) lt b
    simp only [desugarS]
    refine ⟨by simp; omega, ?_⟩
    intro l hl
    simp at hl
    rcases hl with rfl | hl | rfl | rfl
    · simp; omega
    · have := h.2 l hl; simp; omega
    · simp; omega
    · simp; omega
  | brk, n, lt, .times none c b => by
    have h := rangeL k n (n+4) lt b
    simp only [desugarS]
    refine ⟨by simp; omega, ?_⟩
    intro l hl
    simp at hl
    rcases hl with rfl | hl | rfl | rfl
    · simp; omega
    · have := h.2 l hl; simp; omega
    · simp; omega
    · simp; omega
  | brk, n, lt, .times (some x) c b => by
    have h := rangeL k n (n+3) lt b
    simp only [desugarS]
    refine ⟨by simp; omega, ?_⟩
    intro l hl
    simp at hl
    rcases hl with rfl | hl | rfl | rfl
    · simp; omega
    · have := h.2 l hl; simp; omega
    · simp; omega
    · simp; omega
theorem rangeL (k : CJ) : ∀ (brk n : Nat) (lt : Int) (ss : List Stmt),
    n ≤ (desugarL k brk n lt ss).2 ∧ InRange n (desugarL k brk n lt ss).2 (desugarL k brk n lt ss).1
  | brk, n, lt, [] => by simp [desugarL, InRange]
  | brk, n, lt, s :: ss => by
    have h1 := rangeS k brk n lt s
    have h2 := rangeL k brk (desugarS k brk n lt s).2 (endS lt s) ss
    simp only [desugarL]
    refine ⟨by omega, ?_⟩
    intro l hl
    simp at hl
    rcases hl with hl | hl
    · have := h1.2 l hl; omega
    · have := h2.2 l hl; omega
theorem rangeC (k : CJ) : ∀ (brk ve n : Nat) (lt : Int) (ch : Chain),
    n ≤ (desugarC k brk ve n lt ch).2 ∧ InRange n (desugarC k brk ve n lt ch).2 (desugarC k brk ve n lt ch).1
  | brk, ve, n, lt, .none => by simp [desugarC, InRange]
  | brk, ve, n, lt, .els b => by
    have h := rangeL k brk n lt b
    simpa [desugarC, InRange] using h
  | brk, ve, n, lt, .elif i c thn rest => by
    have h1 := rangeL k brk (n+1) lt thn
    have h2 := rangeC k brk ve (desugarL k brk (n+1) lt thn).2 (endL lt thn) rest
    simp only [desugarC]
    refine ⟨by simp; omega, ?_⟩
    intro l hl
    simp at hl
    rcases hl with hl | rfl | hl
    · have := h1.2 l hl; simp; omega
    · simp; omega
    · have := h2.2 l hl; simp at this ⊢; omega
end

theorem rangeB (k : CJ) (brk n : Nat) (lt : Int) (b : List Stmt) :
    n ≤ (desugarB k brk n lt b).2 ∧ InRange n (desugarB k brk n lt b).2 (desugarB k brk n lt b).1 := by
  have h := rangeL k brk n lt b
  simpa [InRange] using h

end TruthModel.Blocks
