-- Root of the library: everything that `lake build TruthModel` must check.
import TruthModel.Model.Basic
import TruthModel.Model.Ops
import TruthModel.Model.Expr
import TruthModel.Props.C11
import TruthModel.Driver.Sexp
import TruthModel.Driver.Native
import TruthModel.Driver.C11
import TruthModel.Model.InstrIO
import TruthModel.Driver.C03
import TruthModel.Props.C03
import TruthModel.Props.C16
import TruthModel.Props.C17
import TruthModel.Driver.C17
import TruthModel.Model.Pixels
import TruthModel.Props.C01
